#![feature(allocator_api)]
use vstd::prelude::*;
use std::collections::{HashMap, HashSet};
use std::hash::Hash;
use core::borrow::Borrow;
use core::alloc::Allocator;
verus! {
global size_of usize == 8;
broadcast use vstd::std_specs::hash::group_hash_axioms;

// ---- trusted (3.7) ----
pub broadcast axiom fn axiom_iter_mut_has_resolved<'a, T>(it: vstd::std_specs::iter::VerusForLoopWrapper<core::slice::IterMut<'a, T>>)
    ensures #[trigger] has_resolved(it) ==> forall|i: int| it.index@ <= i < it.seq().len() ==> has_resolved(#[trigger] it.seq()[i]);
pub uninterp spec fn key_of<K, Q: ?Sized>(k: &Q) -> K;
#[verifier::external_body] pub proof fn axiom_key_of_same<K>(k: &K) ensures key_of::<K, K>(k) == *k {}
pub assume_specification<'a, K: Eq + Hash, V, S: core::hash::BuildHasher, A: Allocator, Q: ?Sized + Hash + Eq>
    [ HashMap::<K, V, S, A>::get_mut::<Q> ] (m: &'a mut HashMap<K, V, S, A>, k: &Q) -> (r: Option<&'a mut V>)
    where K: Borrow<Q>
    ensures
        vstd::std_specs::hash::obeys_key_model::<K>() && vstd::std_specs::hash::builds_valid_hashers::<S>() ==> match r {
            Some(v) => old(m)@.contains_key(key_of::<K, Q>(k)) && *v == old(m)@[key_of::<K, Q>(k)]
                && final(m)@ == old(m)@.insert(key_of::<K, Q>(k), *final(v)),
            None => !old(m)@.contains_key(key_of::<K, Q>(k)) && final(m)@ == old(m)@,
        };

// opaque external types
pub struct Utc;
#[verifier::external_body] pub struct DateTimeUtc { x: u8 }
impl Utc { #[verifier::external_body] pub fn now() -> DateTimeUtc { unimplemented!() } }
impl DateTimeUtc { #[verifier::external_body] pub fn timestamp(&self) -> i64 { unimplemented!() } }
impl ClusterName { #[verifier::external_body] pub fn to_string(&self) -> String { unimplemented!() } }

#[verifier::external_body] pub struct ClusterName { x: u8 }
#[verifier::external_body] pub struct ClusterConfig { x: u8 }
pub struct InvalidClusterName;
impl Clone for ClusterName { #[verifier::external_body] fn clone(&self) -> Self { unimplemented!() } }
impl<'b> core::convert::TryFrom<&'b str> for ClusterName {
    type Error = InvalidClusterName;
    #[verifier::external_body] fn try_from(s: &'b str) -> Result<Self, InvalidClusterName> { unimplemented!() }
}
impl ClusterConfig {
    #[verifier::external_body] pub fn clone(&self) -> Self { unimplemented!() }
    #[verifier::external_body] pub fn set_field(&mut self, k: &String, v: &String) -> Result<(), String> { unimplemented!() }
}
impl core::cmp::PartialEq for ClusterName { #[verifier::external_body] fn eq(&self, o: &Self) -> bool { unimplemented!() } }
impl core::cmp::Eq for ClusterName {}
impl core::hash::Hash for ClusterName { #[verifier::external_body] fn hash<H: core::hash::Hasher>(&self, state: &mut H) { unimplemented!() } }

pub struct MigrationMeta {
    pub epoch: u64, // The epoch migration starts
    pub src_proxy_address: String,
    pub src_node_address: String,
    pub dst_proxy_address: String,
    pub dst_node_address: String,
}
pub enum SlotRangeTag {
    Migrating(MigrationMeta),
    Importing(MigrationMeta),
    None,
}
pub struct Range(pub usize, pub usize);
pub struct RangeList(Vec<Range>);
pub struct SlotRange {
    pub range_list: RangeList,
    pub tag: SlotRangeTag,
}
pub struct MigrationTaskMeta {
    pub cluster_name: ClusterName,
    pub slot_range: SlotRange,
}
pub const NODES_PER_PROXY: usize = 2;
pub const CHUNK_PARTS: usize = 2;
pub const CHUNK_HALF_NODE_NUM: usize = 2;
pub const CHUNK_NODE_NUM: usize = 4;
pub struct ProxyResource {
    pub proxy_address: String,
    pub node_addresses: [String; NODES_PER_PROXY],
    pub host: String,
    // `index` is only used as the index in StatefulSet of Kubernetes
    // when `enable_ordered_proxy` is true.
    pub index: usize,
    pub cluster: Option<ClusterName>,
}
#[derive(Clone, Copy, PartialEq, Eq, Structural)]
pub enum ChunkRolePosition {
    Normal,
    FirstChunkMaster,
    SecondChunkMaster,
}
pub struct MigrationSlotRangeStore {
    pub range_list: RangeList,
    pub is_migrating: bool, // migrating or importing
    pub meta: MigrationMetaStore,
}
pub struct MigrationMetaStore {
    pub epoch: u64,
    pub src_chunk_index: usize,
    pub src_chunk_part: usize,
    pub dst_chunk_index: usize,
    pub dst_chunk_part: usize,
}
pub struct ChunkStore {
    pub role_position: ChunkRolePosition,
    pub stable_slots: [Option<SlotRange>; CHUNK_PARTS],
    pub migrating_slots: [Vec<MigrationSlotRangeStore>; CHUNK_PARTS],
    pub proxy_addresses: [String; CHUNK_PARTS],
    pub hosts: [String; CHUNK_PARTS],
    pub node_addresses: [String; CHUNK_NODE_NUM],
}
pub struct ClusterStore {
    pub epoch: u64,
    pub name: ClusterName,
    pub chunks: Vec<ChunkStore>,
    pub config: ClusterConfig,
}
pub struct MigrationSlots {
    pub ranges: RangeList,
    pub meta: MigrationMetaStore,
}
pub enum ScaleOp {
    NoOp,
    ScaleOut,
    ScaleDown,
}
pub struct MetaStore {
    pub version: String,
    pub global_epoch: u64,
    pub clusters: HashMap<ClusterName, ClusterStore>,
    // proxy_address => nodes and cluster_name
    pub all_proxies: HashMap<String, ProxyResource>,
    // proxy addresses
    pub failed_proxies: HashSet<String>,
    // failed_proxy_address => reporter_id => time,
    pub failures: HashMap<String, HashMap<String, i64>>,
    // Set it `true` for kubernetes StatefulSet
    // to disable the chunk allocation algorithm
    // and only use ProxyResource.index to allocate chunks.
    pub enable_ordered_proxy: bool,
}
pub enum MetaStoreError {
    InUse,
    NotInUse,
    NoAvailableResource,
    ResourceNotBalance,
    AlreadyExisted,
    ClusterNotFound,
    FreeNodeNotFound,
    FreeNodeFound,
    ProxyNotFound,
    InvalidNodeNum,
    NodeNumAlreadyEnough,
    InvalidClusterName,
    InvalidMigrationTask,
    InvalidProxyAddress,
    MigrationTaskNotFound,
    MigrationRunning,
    InvalidConfig {
        key: String,
        value: String,
        error: String,
    },
    SlotsAlreadyEven,
    
    InvalidMetaVersion,
    SmallEpoch,
    MissingIndex,
    ProxyResourceOutOfOrder,
    OrderedProxyEnabled,
    OneClusterAlreadyExisted,
    ProxyNotSync,
    NodeNumberChanging,
    External,
    Retry,
    EmptyExternalVersion,
    ExternalTimeout,
}


// ---- specs ----
pub open spec fn is_hit(c: ChunkStore, failed: Seq<char>) -> bool { c.proxy_addresses[0]@ == failed || c.proxy_addresses[1]@ == failed }
pub open spec fn hit_half(c: ChunkStore, failed: Seq<char>) -> int { if c.proxy_addresses[0]@ == failed { 0 } else { 1 } }
pub open spec fn flipped(h: int) -> ChunkRolePosition { if h == 0 { ChunkRolePosition::SecondChunkMaster } else { ChunkRolePosition::FirstChunkMaster } }
pub open spec fn touches(m: MigrationMetaStore, p: Set<(usize, usize)>) -> bool { p.contains((m.src_chunk_index, m.src_chunk_part)) || p.contains((m.dst_chunk_index, m.dst_chunk_part)) }
pub open spec fn positions_of(a: Seq<MigrationSlotRangeStore>) -> Set<(usize, usize)>
    decreases a.len()
{
    if a.len() == 0 { Set::<(usize, usize)>::empty() }
    else { positions_of(a.drop_last()).insert((a.last().meta.src_chunk_index, a.last().meta.src_chunk_part)).insert((a.last().meta.dst_chunk_index, a.last().meta.dst_chunk_part)) }
}
// entry b is entry a with epoch := e if stamped, unchanged otherwise
pub open spec fn entry_post(a: MigrationSlotRangeStore, b: MigrationSlotRangeStore, stamped: bool, e: u64) -> bool {
    b.range_list == a.range_list && b.is_migrating == a.is_migrating
    && b.meta.src_chunk_index == a.meta.src_chunk_index && b.meta.src_chunk_part == a.meta.src_chunk_part
    && b.meta.dst_chunk_index == a.meta.dst_chunk_index && b.meta.dst_chunk_part == a.meta.dst_chunk_part
    && b.meta.epoch == (if stamped { e } else { a.meta.epoch })
}
pub open spec fn entries_post(a: Seq<MigrationSlotRangeStore>, b: Seq<MigrationSlotRangeStore>, p: Set<(usize, usize)>, all: bool, e: u64) -> bool {
    a.len() == b.len() && forall|i: int| 0 <= i < a.len() ==> entry_post(#[trigger] a[i], b[i], all || touches(a[i].meta, p), e)
}
pub open spec fn chunk_static_eq(a: ChunkStore, b: ChunkStore) -> bool {
    a.stable_slots == b.stable_slots && a.proxy_addresses == b.proxy_addresses && a.hosts == b.hosts && a.node_addresses == b.node_addresses
}
// first phase, on the hit chunk
pub open spec fn both_moved(a: ChunkStore, h: int) -> bool { a.role_position == flipped(1 - h) }
pub open spec fn hit_peers(a: ChunkStore, h: int) -> Set<(usize, usize)> {
    if both_moved(a, h) { positions_of(a.migrating_slots[h]@ + a.migrating_slots[1 - h]@) } else { positions_of(a.migrating_slots[h]@) }
}
pub open spec fn hit_post(a: ChunkStore, b: ChunkStore, failed: Seq<char>, e: u64, early: bool, peers: Set<(usize, usize)>) -> bool {
    let h = hit_half(a, failed);
    if a.role_position == flipped(h) { early && b == a && peers == Set::<(usize, usize)>::empty() }
    else {
        !early && chunk_static_eq(a, b) && b.role_position == flipped(h)
        && entries_post(a.migrating_slots[1 - h]@, b.migrating_slots[1 - h]@, Set::<(usize, usize)>::empty(), both_moved(a, h), e)
        && entries_post(a.migrating_slots[h]@, b.migrating_slots[h]@, Set::<(usize, usize)>::empty(), true, e)
        && peers == hit_peers(a, h)
    }
}
// second phase
pub open spec fn chunk_post2(a: ChunkStore, b: ChunkStore, p: Set<(usize, usize)>, e: u64) -> bool {
    chunk_static_eq(a, b) && a.role_position == b.role_position
    && entries_post(a.migrating_slots[0]@, b.migrating_slots[0]@, p, false, e)
    && entries_post(a.migrating_slots[1]@, b.migrating_slots[1]@, p, false, e)
}

pub open spec fn is_first_hit(oc: ClusterStore, j: int, failed: Seq<char>) -> bool {
    0 <= j < oc.chunks@.len() && is_hit(oc.chunks@[j], failed) && forall|i: int| 0 <= i < j ==> !is_hit(#[trigger] oc.chunks@[i], failed)
}
pub open spec fn chunk_final(a: ChunkStore, b: ChunkStore, is_j: bool, h: int, p: Set<(usize, usize)>, e: u64) -> bool {
    chunk_static_eq(a, b) && b.role_position == (if is_j { flipped(h) } else { a.role_position })
    && entries_post(a.migrating_slots[0]@, b.migrating_slots[0]@, p, is_j && (h == 0 || both_moved(a, h)), e)
    && entries_post(a.migrating_slots[1]@, b.migrating_slots[1]@, p, is_j && (h == 1 || both_moved(a, h)), e)
}
pub open spec fn takeover_post(oc: ClusterStore, nc: ClusterStore, failed: Seq<char>, e: u64) -> bool {
    &&& nc.chunks@.len() == oc.chunks@.len() && nc.name == oc.name && nc.config == oc.config
    &&& forall|j: int| #![trigger oc.chunks@[j]] is_first_hit(oc, j, failed) && oc.chunks@[j].role_position == flipped(hit_half(oc.chunks@[j], failed)) ==> nc.epoch == oc.epoch && nc.chunks@ =~= oc.chunks@
    &&& forall|j: int| #![trigger oc.chunks@[j]] is_first_hit(oc, j, failed) && oc.chunks@[j].role_position != flipped(hit_half(oc.chunks@[j], failed)) ==> {
            let h = hit_half(oc.chunks@[j], failed);
            nc.epoch == e && forall|c: int| 0 <= c < oc.chunks@.len() ==> chunk_final(#[trigger] oc.chunks@[c], nc.chunks@[c], c == j, h, hit_peers(oc.chunks@[j], h), e)
        }
    &&& (forall|i: int| 0 <= i < oc.chunks@.len() ==> !is_hit(#[trigger] oc.chunks@[i], failed)) ==>
            nc.epoch == e && forall|c: int| 0 <= c < oc.chunks@.len() ==> chunk_final(#[trigger] oc.chunks@[c], nc.chunks@[c], false, 0, Set::<(usize, usize)>::empty(), e)
}

impl MetaStore {
    pub fn bump_global_epoch(&mut self) -> (r: u64)
        requires old(self).global_epoch < u64::MAX
        ensures final(self).global_epoch == old(self).global_epoch + 1, r == final(self).global_epoch,
            final(self).clusters == old(self).clusters, final(self).all_proxies == old(self).all_proxies,
            final(self).failed_proxies == old(self).failed_proxies, final(self).failures == old(self).failures,
    {
        self.global_epoch += 1;
        self.global_epoch
    }
}

pub struct Proxy { pub x: u8 }
#[verifier::external_body] fn shim_clone_opt_name(x: &Option<ClusterName>) -> (r: Option<ClusterName>) ensures r == *x { unimplemented!() }
pub broadcast axiom fn axiom_string_key() ensures #[trigger] vstd::std_specs::hash::obeys_key_model::<String>();
impl Clone for ProxyResource { #[verifier::external_body] fn clone(&self) -> (r: Self) ensures r == *self { unimplemented!() } }
impl ClusterStore {
    pub fn set_epoch(&mut self, new_epoch: u64) ensures final(self).epoch == new_epoch, final(self).chunks == old(self).chunks, final(self).config == old(self).config, final(self).name == old(self).name {
        self.epoch = new_epoch;
    }
}
// address replacement on the first chunk that holds the failed proxy
pub open spec fn slot_replaced(a: ChunkStore, b: ChunkStore, k: int, n: ProxyResource) -> bool {
    b.role_position == a.role_position && b.stable_slots == a.stable_slots && b.migrating_slots == a.migrating_slots
    && b.hosts[k]@ == n.host@ && b.hosts[1 - k] == a.hosts[1 - k]
    && b.proxy_addresses[k]@ == n.proxy_address@ && b.proxy_addresses[1 - k] == a.proxy_addresses[1 - k]
    && b.node_addresses[2 * k]@ == n.node_addresses[0]@ && b.node_addresses[2 * k + 1]@ == n.node_addresses[1]@
    && b.node_addresses[2 * (1 - k)] == a.node_addresses[2 * (1 - k)] && b.node_addresses[2 * (1 - k) + 1] == a.node_addresses[2 * (1 - k) + 1]
}
pub open spec fn replaced_post(m: ClusterStore, n: ClusterStore, failed: Seq<char>, res: ProxyResource, e: u64) -> bool {
    n.epoch == e && n.name == m.name && n.config == m.config && n.chunks@.len() == m.chunks@.len()
    && (forall|j: int| #![trigger m.chunks@[j]] is_first_hit(m, j, failed) ==> slot_replaced(m.chunks@[j], n.chunks@[j], hit_half(m.chunks@[j], failed), res))
    && (forall|c: int| 0 <= c < m.chunks@.len() && !is_first_hit(m, c, failed) ==> n.chunks@[c] == #[trigger] m.chunks@[c])
}
pub struct MetaStoreQuery<'a> { pub store: &'a MetaStore }
impl<'a> MetaStoreQuery<'a> {
    pub fn new(store: &'a MetaStore) -> (r: Self) ensures r.store == store { Self { store } }
    // out of reach (filter/cloned/group_by): assumed to return Some for a registered address
    #[verifier::external_body] pub fn get_proxy_by_address(&self, address: &str, migration_limit: u64) -> (r: Option<Proxy>)
        ensures r is Some <==> exists|k: String| #![trigger self.store.all_proxies@.contains_key(k)] self.store.all_proxies@.contains_key(k) && k@ == address@ { unimplemented!() }
}
pub struct MetaStoreUpdate<'a> { pub store: &'a mut MetaStore }
impl<'a> MetaStoreUpdate<'a> {
    // verified in its own unit (w3.rs); here only its contract is visible
    #[verifier::external_body]
    fn takeover_master(&mut self, cluster_name: &ClusterName, failed_proxy_address: String) -> (r: Result<(), MetaStoreError>)
        requires old(self).store.global_epoch < u64::MAX,
        ensures
            final(self).store.global_epoch == old(self).store.global_epoch + 1,
            final(self).store.failed_proxies == old(self).store.failed_proxies, final(self).store.failures == old(self).store.failures,
            final(self).store.all_proxies == old(self).store.all_proxies, final(self).store.enable_ordered_proxy == old(self).store.enable_ordered_proxy,
            r is Err ==> final(self).store.clusters@ == old(self).store.clusters@ && !old(self).store.clusters@.contains_key(*cluster_name),
            r is Ok ==> old(self).store.clusters@.contains_key(*cluster_name)
                && final(self).store.clusters@ == old(self).store.clusters@.insert(*cluster_name, final(self).store.clusters@[*cluster_name])
                && takeover_post(old(self).store.clusters@[*cluster_name], final(self).store.clusters@[*cluster_name], failed_proxy_address@, final(self).store.global_epoch),
    { unimplemented!() }
    // out of reach (HashMap<String,Vec<String>> + min_by): assumed contract
    #[verifier::external_body]
    fn generate_new_free_proxy(&self, failed_proxy_address: String) -> (r: Result<ProxyResource, MetaStoreError>)
        ensures r matches Ok(p) ==> old(self.store).all_proxies@.contains_key(p.proxy_address) && old(self.store).all_proxies@[p.proxy_address] == p
    { unimplemented!() }
    pub fn replace_failed_proxy(
        &mut self,
        failed_proxy_address: String,
        migration_limit: u64,
    ) -> (r: Result<Option<Proxy>, MetaStoreError>)
        requires old(self).store.global_epoch < u64::MAX - 1,
            vstd::std_specs::hash::obeys_key_model::<String>(), vstd::std_specs::hash::obeys_key_model::<ClusterName>(),
        ensures
            final(self).store.global_epoch >= old(self).store.global_epoch,
            r matches Ok(Some(_)) ==> {
                &&& old(self).store.all_proxies@.contains_key(failed_proxy_address)
                &&& old(self).store.all_proxies@[failed_proxy_address].cluster is Some
                &&& final(self).store.failed_proxies@.contains(failed_proxy_address)
                &&& final(self).store.global_epoch == old(self).store.global_epoch + 2
                &&& {
                    let cn = old(self).store.all_proxies@[failed_proxy_address].cluster->Some_0;
                    old(self).store.clusters@.contains_key(cn) && final(self).store.clusters@.contains_key(cn)
                    && final(self).store.clusters@[cn].epoch == final(self).store.global_epoch
                    && exists|mid: ClusterStore, res: ProxyResource|
                        takeover_post(old(self).store.clusters@[cn], mid, failed_proxy_address@, (old(self).store.global_epoch + 1) as u64)
                        && replaced_post(mid, final(self).store.clusters@[cn], failed_proxy_address@, res, final(self).store.global_epoch)
                }
            },
{
        let cluster_name = match self.store.all_proxies.get(&failed_proxy_address) {
            None => return Err(MetaStoreError::ProxyNotFound),
            Some(proxy) => shim_clone_opt_name(&proxy.cluster),
        };

        let cluster_name = match cluster_name {
            None => {
                self.store.failures.remove(&failed_proxy_address);
                self.store.failed_proxies.insert(failed_proxy_address);
                return Ok(None);
            }
            Some(cluster_name) => cluster_name,
        };

        let ghost g0 = self.store.global_epoch;
        let ghost oc = self.store.clusters@[cluster_name];
        self.takeover_master(&cluster_name, failed_proxy_address.clone())?;
        let ghost mid = self.store.clusters@[cluster_name];

        // If enable_ordered_proxy is true, we won't replace the proxy.
        if self.store.enable_ordered_proxy {
            self.store.bump_global_epoch();
            return Ok(None);
        }

        self.store
            .failed_proxies
            .insert(failed_proxy_address.clone());

        let proxy_resource = self.generate_new_free_proxy(failed_proxy_address.clone())?;
        let new_epoch = self.store.bump_global_epoch();
        {
            proof { axiom_key_of_same::<ClusterName>(&cluster_name); }
            let ghost map0 = self.store.clusters@;
            let cluster = self
                .store
                .clusters
                .get_mut(&cluster_name)
                .expect("replace_failed_proxy: get cluster");
            let ghost mc = *cluster;
            let ghost mut hit_idx: int = -1;
            broadcast use axiom_iter_mut_has_resolved;
            for chunk in it: cluster.chunks.iter_mut()
                invariant_except_break
                    hit_idx == -1,
                    forall|i: int| 0 <= i < it.index@ ==> !is_hit(mc.chunks@[i], failed_proxy_address@),
                invariant
                    it.seq().len() == mc.chunks@.len(),
                    forall|i: int| 0 <= i < it.seq().len() ==> *(#[trigger] it.seq()[i]) == mc.chunks@[i],
                    forall|i: int| 0 <= i < it.index@ - 1 ==> !is_hit(mc.chunks@[i], failed_proxy_address@),
                    forall|i: int| 0 <= i < it.index@ && !is_hit(mc.chunks@[i], failed_proxy_address@) ==> *final(#[trigger] it.seq()[i]) == mc.chunks@[i],
                    forall|i: int| 0 <= i < it.index@ && is_hit(mc.chunks@[i], failed_proxy_address@) ==> slot_replaced(mc.chunks@[i], *final(#[trigger] it.seq()[i]), hit_half(mc.chunks@[i], failed_proxy_address@), proxy_resource),
                ensures
                    hit_idx == -1 ==> it.index@ == it.seq().len() && forall|i: int| 0 <= i < it.seq().len() ==> !is_hit(#[trigger] mc.chunks@[i], failed_proxy_address@),
                    hit_idx != -1 ==> hit_idx == it.index@ - 1 && 0 <= hit_idx < it.seq().len() && is_hit(mc.chunks@[hit_idx], failed_proxy_address@),
            {
                if chunk.proxy_addresses[0] == failed_proxy_address {
                    chunk.hosts[0] = proxy_resource.host.clone();
                    chunk.proxy_addresses[0] = proxy_resource.proxy_address.clone();
                    chunk.node_addresses[0] = proxy_resource.node_addresses[0].clone();
                    chunk.node_addresses[1] = proxy_resource.node_addresses[1].clone();
                    proof { hit_idx = it.index@; }
                    break;
                } else if chunk.proxy_addresses[1] == failed_proxy_address {
                    chunk.hosts[1] = proxy_resource.host.clone();
                    chunk.proxy_addresses[1] = proxy_resource.proxy_address.clone();
                    chunk.node_addresses[2] = proxy_resource.node_addresses[0].clone();
                    chunk.node_addresses[3] = proxy_resource.node_addresses[1].clone();
                    proof { hit_idx = it.index@; }
                    break;
                }
            }
            cluster.set_epoch(new_epoch);
            proof {
                let fa = failed_proxy_address@;
                assert(cluster.chunks@.len() == mc.chunks@.len());
                if hit_idx == -1 {
                    assert forall|c: int| 0 <= c < mc.chunks@.len() implies cluster.chunks@[c] == #[trigger] mc.chunks@[c] by {}
                } else {
                    assert(is_first_hit(mc, hit_idx, fa));
                    assert forall|j: int| is_first_hit(mc, j, fa) implies j == hit_idx by {}
                    assert forall|c: int| 0 <= c < mc.chunks@.len() && c != hit_idx implies cluster.chunks@[c] == #[trigger] mc.chunks@[c] by {}
                }
                assert(replaced_post(mc, *cluster, fa, proxy_resource, new_epoch));
            }
        }

        // Set this proxy free
        if let Some(proxy) = self.store.all_proxies.get_mut(&failed_proxy_address) {
            proxy.cluster = None;
        }
        // Tag the new proxy as occupied
        if let Some(proxy) = self
            .store
            .all_proxies
            .get_mut(&proxy_resource.proxy_address)
        {
            proxy.cluster = Some(cluster_name);
        }

        proof { assert(self.store.all_proxies@.contains_key(proxy_resource.proxy_address)); }
        let proxy = MetaStoreQuery::new(self.store)
            .get_proxy_by_address(&proxy_resource.proxy_address, migration_limit)
            .expect("replace_failed_proxy");
        proof {
            let cn = cluster_name;
            assert(old(self).store.all_proxies@.contains_key(failed_proxy_address));
            assert(old(self).store.all_proxies@[failed_proxy_address].cluster == Some(cn));
            assert(self.store.failed_proxies@.contains(failed_proxy_address));
            assert(self.store.global_epoch == old(self).store.global_epoch + 2);
            assert(old(self).store.clusters@.contains_key(cn));
            assert(self.store.clusters@.contains_key(cn));
            assert(self.store.clusters@[cn].epoch == self.store.global_epoch);
            assert(takeover_post(old(self).store.clusters@[cn], mid, failed_proxy_address@, (old(self).store.global_epoch + 1) as u64));
            assert(replaced_post(mid, self.store.clusters@[cn], failed_proxy_address@, proxy_resource, self.store.global_epoch));
        }
        Ok(Some(proxy))
    }
}
} // verus!
fn main() {}
