use vstd::prelude::*;
verus! {
global size_of usize == 8;

pub const LF: u8 = 10;
pub const CR: u8 = 13;
pub enum ParseError { InvalidProtocol, NotEnoughData, UnexpectedErr }

// ======================= strict RESP grammar as spec =======================
pub enum SResp { Error(int, int), Simple(int, int), Integer(int, int), BulkNil, Bulk(int, int), ArrNil, Arr(Seq<SResp>) }
pub enum SRes<T> { Ok(T, int), NotEnough, Invalid }

pub open spec fn first_lf(s: Seq<u8>) -> Option<int>
    decreases s.len()
{
    if s.len() == 0 { None } else if s[0] == LF { Some(0int) } else { match first_lf(s.subrange(1, s.len() as int)) { Some(i) => Some(i + 1), None => None } }
}
pub uninterp spec fn spec_btoi(s: Seq<u8>) -> Option<int>;   // decimal value if s is a valid i64 literal

// a line: (end of content, consumed)
pub open spec fn spec_line(s: Seq<u8>) -> SRes<int> {
    match first_lf(s) {
        None => SRes::NotEnough,
        Some(i) => if i == 0 || s[i - 1] != CR { SRes::Invalid } else { SRes::Ok(i - 1, i + 1) },
    }
}
pub open spec fn spec_len(s: Seq<u8>) -> SRes<int> {
    match spec_line(s) {
        SRes::Ok(end, c) => match spec_btoi(s.subrange(0, end)) { Some(n) => SRes::Ok(n, c), None => SRes::Invalid },
        SRes::NotEnough => SRes::NotEnough,
        SRes::Invalid => SRes::Invalid,
    }
}
// bulk body (after '$'), indices relative to s
pub open spec fn spec_bulk(s: Seq<u8>) -> SRes<SResp> {
    match spec_len(s) {
        SRes::Ok(n, c) =>
            if n < -1 { SRes::Invalid }
            else if n == -1 { SRes::Ok(SResp::BulkNil, c) }
            else if s.len() < c + n + 2 { SRes::NotEnough }
            else if s[c + n] != CR || s[c + n + 1] != LF { SRes::Invalid }
            else { SRes::Ok(SResp::Bulk(c, c + n), c + n + 2) },
        SRes::NotEnough => SRes::NotEnough,
        SRes::Invalid => SRes::Invalid,
    }
}
pub open spec fn shift(r: SResp, k: int) -> SResp
    decreases r
{
    match r {
        SResp::Error(a, b) => SResp::Error(a + k, b + k),
        SResp::Simple(a, b) => SResp::Simple(a + k, b + k),
        SResp::Integer(a, b) => SResp::Integer(a + k, b + k),
        SResp::BulkNil => SResp::BulkNil,
        SResp::Bulk(a, b) => SResp::Bulk(a + k, b + k),
        SResp::ArrNil => SResp::ArrNil,
        SResp::Arr(v) => SResp::Arr(Seq::new(v.len(), |i: int| if 0 <= i < v.len() { shift(v[i], k) } else { SResp::ArrNil })),
    }
}
pub open spec fn spec_resp(s: Seq<u8>) -> SRes<SResp>
    decreases s.len(), 2int, 0int
{
    if s.len() == 0 { SRes::NotEnough } else {
        let t = s.subrange(1, s.len() as int);
        let p = s[0];
        if p == 36u8 /* $ */ { match spec_bulk(t) { SRes::Ok(v, c) => SRes::Ok(shift(v, 1), c + 1), SRes::NotEnough => SRes::NotEnough, SRes::Invalid => SRes::Invalid } }
        else if p == 43u8 /* + */ { match spec_line(t) { SRes::Ok(e, c) => SRes::Ok(SResp::Simple(1, e + 1), c + 1), SRes::NotEnough => SRes::NotEnough, SRes::Invalid => SRes::Invalid } }
        else if p == 58u8 /* : */ { match spec_line(t) { SRes::Ok(e, c) => SRes::Ok(SResp::Integer(1, e + 1), c + 1), SRes::NotEnough => SRes::NotEnough, SRes::Invalid => SRes::Invalid } }
        else if p == 45u8 /* - */ { match spec_line(t) { SRes::Ok(e, c) => SRes::Ok(SResp::Error(1, e + 1), c + 1), SRes::NotEnough => SRes::NotEnough, SRes::Invalid => SRes::Invalid } }
        else if p == 42u8 /* * */ { match spec_array(t) { SRes::Ok(v, c) => SRes::Ok(shift(v, 1), c + 1), SRes::NotEnough => SRes::NotEnough, SRes::Invalid => SRes::Invalid } }
        else { SRes::Invalid }
    }
}
pub open spec fn spec_array(s: Seq<u8>) -> SRes<SResp>
    decreases s.len(), 1int, 0int
{
    match spec_len(s) {
        SRes::Ok(n, c) =>
            if n < -1 { SRes::Invalid }
            else if n == -1 { SRes::Ok(SResp::ArrNil, c) }
            else if c < 1 || c > s.len() { SRes::Invalid }   // unreachable: a line consumes >= 2
            else { match spec_elems(s, c, n, Seq::<SResp>::empty()) { SRes::Ok(v, c2) => SRes::Ok(SResp::Arr(v), c2), SRes::NotEnough => SRes::NotEnough, SRes::Invalid => SRes::Invalid } },
        SRes::NotEnough => SRes::NotEnough,
        SRes::Invalid => SRes::Invalid,
    }
}
// parse k more elements of s starting at pos (1 <= pos <= len), accumulating
pub open spec fn spec_elems(s: Seq<u8>, pos: int, k: int, acc: Seq<SResp>) -> SRes<Seq<SResp>>
    decreases s.len(), 0int, k
{
    if k <= 0 { SRes::Ok(acc, pos) }
    else if pos < 1 || pos > s.len() { SRes::Invalid }
    else {
        match spec_resp(s.subrange(pos, s.len() as int)) {
            SRes::Ok(v, c) => if c < 1 { SRes::Invalid } else { spec_elems(s, pos + c, k - 1, acc.push(shift(v, pos))) },
            SRes::NotEnough => SRes::NotEnough,
            SRes::Invalid => SRes::Invalid,
        }
    }
}


// ======================= lemmas over the grammar =======================
pub proof fn lemma_first_lf_props(s: Seq<u8>)
    ensures match first_lf(s) {
        Some(i) => 0 <= i < s.len() && s[i] == LF && forall|j: int| 0 <= j < i ==> s[j] != LF,
        None => forall|j: int| 0 <= j < s.len() ==> s[j] != LF,
    }
    decreases s.len()
{
    if s.len() == 0 {} else if s[0] == LF {} else {
        let t = s.subrange(1, s.len() as int);
        lemma_first_lf_props(t);
        match first_lf(t) {
            Some(i) => { assert forall|j: int| 0 <= j < i + 1 implies s[j] != LF by { if j > 0 { assert(t[j - 1] == s[j]); } } assert(t[i] == s[i + 1]); }
            None => { assert forall|j: int| 0 <= j < s.len() implies s[j] != LF by { if j > 0 { assert(t[j - 1] == s[j]); } } }
        }
    }
}
pub proof fn lemma_first_lf_is(s: Seq<u8>, i: int)
    requires 0 <= i < s.len(), s[i] == LF, forall|j: int| 0 <= j < i ==> s[j] != LF
    ensures first_lf(s) == Some(i)
{ lemma_first_lf_props(s); }
pub proof fn lemma_first_lf_none(s: Seq<u8>)
    requires forall|j: int| 0 <= j < s.len() ==> s[j] != LF
    ensures first_lf(s).is_none()
{ lemma_first_lf_props(s); }

// two byte strings agree on their first c bytes
pub open spec fn agree(s: Seq<u8>, t: Seq<u8>, c: int) -> bool { c <= s.len() && c <= t.len() && forall|j: int| 0 <= j < c ==> s[j] == t[j] }

pub proof fn lemma_line_prefix(s: Seq<u8>, t: Seq<u8>)
    requires spec_line(s) is Ok, agree(s, t, spec_line(s)->Ok_1)
    ensures spec_line(t) == spec_line(s)
{
    lemma_first_lf_props(s);
    let i = first_lf(s).unwrap();
    assert(t[i] == LF);
    assert forall|j: int| 0 <= j < i implies t[j] != LF by { assert(s[j] != LF); }
    lemma_first_lf_is(t, i);
}
pub proof fn lemma_line_short(s: Seq<u8>, k: int)
    requires spec_line(s) is Ok, 0 <= k < spec_line(s)->Ok_1
    ensures spec_line(s.subrange(0, k)) is NotEnough
{
    lemma_first_lf_props(s);
    let i = first_lf(s).unwrap();
    let p = s.subrange(0, k);
    assert forall|j: int| 0 <= j < p.len() implies p[j] != LF by { assert(p[j] == s[j]); }
    lemma_first_lf_none(p);
}
pub proof fn lemma_len_prefix(s: Seq<u8>, t: Seq<u8>)
    requires spec_len(s) is Ok, agree(s, t, spec_len(s)->Ok_1)
    ensures spec_len(t) == spec_len(s)
{
    lemma_first_lf_props(s);
    lemma_line_prefix(s, t);
    let e = spec_line(s)->Ok_0;
    assert(0 <= e && e + 2 == spec_line(s)->Ok_1);
    assert(s.subrange(0, e) =~= t.subrange(0, e));
}
pub proof fn lemma_bulk_prefix(s: Seq<u8>, t: Seq<u8>)
    requires spec_bulk(s) is Ok, agree(s, t, spec_bulk(s)->Ok_1)
    ensures spec_bulk(t) == spec_bulk(s)
{
    lemma_first_lf_props(s);
    let c = spec_len(s)->Ok_1;
    assert(c <= spec_bulk(s)->Ok_1);
    lemma_len_prefix(s, t);
}

// consumed positions only grow
pub proof fn lemma_elems_mono(s: Seq<u8>, pos: int, k: int, acc: Seq<SResp>)
    requires spec_elems(s, pos, k, acc) is Ok
    ensures spec_elems(s, pos, k, acc)->Ok_1 >= pos, k > 0 ==> spec_elems(s, pos, k, acc)->Ok_1 <= s.len()
    decreases s.len(), 0int, k
{
    if k <= 0 {} else {
        let sub = s.subrange(pos, s.len() as int);
        let c = spec_resp(sub)->Ok_1;
        lemma_resp_bounds(sub);
        lemma_elems_mono(s, pos + c, k - 1, acc.push(shift(spec_resp(sub)->Ok_0, pos)));
    }
}
pub proof fn lemma_resp_bounds(s: Seq<u8>)
    requires spec_resp(s) is Ok
    ensures 1 <= spec_resp(s)->Ok_1 <= s.len()
    decreases s.len(), 2int, 0int
{
    lemma_first_lf_props(s.subrange(1, s.len() as int));
    let t = s.subrange(1, s.len() as int);
    if s[0] == 42u8 { lemma_array_bounds(t); }
}
pub proof fn lemma_array_bounds(s: Seq<u8>)
    requires spec_array(s) is Ok
    ensures 1 <= spec_array(s)->Ok_1 <= s.len()
    decreases s.len(), 1int, 0int
{
    lemma_first_lf_props(s);
    let n = spec_len(s)->Ok_0; let c = spec_len(s)->Ok_1;
    if n >= 0 {
        lemma_elems_mono(s, c, n, Seq::<SResp>::empty());
    }
}

pub proof fn lemma_resp_prefix(s: Seq<u8>, t: Seq<u8>)
    requires spec_resp(s) is Ok, agree(s, t, spec_resp(s)->Ok_1)
    ensures spec_resp(t) == spec_resp(s)
    decreases s.len(), 2int, 0int
{
    lemma_resp_bounds(s);
    let s1 = s.subrange(1, s.len() as int); let t1 = t.subrange(1, t.len() as int);
    let c = spec_resp(s)->Ok_1;
    assert(t[0] == s[0]);
    assert(agree(s1, t1, c - 1)) by { assert forall|j: int| 0 <= j < c - 1 implies s1[j] == t1[j] by { assert(s[j + 1] == t[j + 1]); } }
    let p = s[0];
    if p == 36u8 { lemma_bulk_prefix(s1, t1); }
    else if p == 43u8 || p == 58u8 || p == 45u8 { lemma_line_prefix(s1, t1); }
    else if p == 42u8 { lemma_array_prefix(s1, t1); }
}
pub proof fn lemma_array_prefix(s: Seq<u8>, t: Seq<u8>)
    requires spec_array(s) is Ok, agree(s, t, spec_array(s)->Ok_1)
    ensures spec_array(t) == spec_array(s)
    decreases s.len(), 1int, 0int
{
    lemma_first_lf_props(s);
    lemma_array_bounds(s);
    let n = spec_len(s)->Ok_0; let c = spec_len(s)->Ok_1;
    if n >= 0 { lemma_elems_mono(s, c, n, Seq::<SResp>::empty()); }
    lemma_len_prefix(s, t);
    if n >= 0 {
        lemma_elems_prefix(s, t, c, n, Seq::<SResp>::empty());
    }
}
pub proof fn lemma_elems_prefix(s: Seq<u8>, t: Seq<u8>, pos: int, k: int, acc: Seq<SResp>)
    requires spec_elems(s, pos, k, acc) is Ok, agree(s, t, spec_elems(s, pos, k, acc)->Ok_1), 1 <= pos,
    ensures spec_elems(t, pos, k, acc) == spec_elems(s, pos, k, acc)
    decreases s.len(), 0int, k
{
    if k <= 0 {} else {
        let ss = s.subrange(pos, s.len() as int); let ts = t.subrange(pos, t.len() as int);
        let c = spec_resp(ss)->Ok_1;
        let acc2 = acc.push(shift(spec_resp(ss)->Ok_0, pos));
        lemma_resp_bounds(ss);
        lemma_elems_mono(s, pos + c, k - 1, acc2);
        let end = spec_elems(s, pos, k, acc)->Ok_1;
        assert(end == spec_elems(s, pos + c, k - 1, acc2)->Ok_1);
        assert(agree(ss, ts, c)) by { assert forall|j: int| 0 <= j < c implies ss[j] == ts[j] by { assert(s[pos + j] == t[pos + j]); } }
        lemma_resp_prefix(ss, ts);
        lemma_elems_prefix(s, t, pos + c, k - 1, acc2);
    }
}
} // verus!
fn main() {}
