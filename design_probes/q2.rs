use vstd::prelude::*;
use std::collections::HashSet;
verus! {
broadcast use vstd::std_specs::hash::group_hash_axioms;

pub broadcast axiom fn axiom_iter_mut_has_resolved<'a, T>(it: vstd::std_specs::iter::VerusForLoopWrapper<core::slice::IterMut<'a, T>>)
    ensures #[trigger] has_resolved(it) ==> forall|i: int| it.index@ <= i < it.seq().len() ==> has_resolved(#[trigger] it.seq()[i]);

pub broadcast axiom fn axiom_tuple_key_model()
    ensures #[trigger] vstd::std_specs::hash::obeys_key_model::<(usize, usize)>();

pub struct MetaS { pub epoch: u64, pub si: usize, pub sp: usize, pub di: usize, pub dp: usize }
pub struct Entry { pub is_migrating: bool, pub meta: MetaS }
pub struct Chunk { pub role: u8, pub ms: [Vec<Entry>; 2], pub pa: [u64; 2] }
pub struct Cluster { pub epoch: u64, pub chunks: Vec<Chunk> }

pub open spec fn touches(m: MetaS, p: Set<(usize, usize)>) -> bool { p.contains((m.si, m.sp)) || p.contains((m.di, m.dp)) }

pub open spec fn entry_frame(a: Entry, b: Entry, e: u64) -> bool {
    a.is_migrating == b.is_migrating && a.meta.si == b.meta.si && a.meta.sp == b.meta.sp && a.meta.di == b.meta.di && a.meta.dp == b.meta.dp
    && (b.meta.epoch == a.meta.epoch || b.meta.epoch == e)
}
pub open spec fn entries_frame(a: Seq<Entry>, b: Seq<Entry>, e: u64) -> bool {
    a.len() == b.len() && forall|k: int| 0 <= k < a.len() ==> entry_frame(#[trigger] a[k], b[k], e)
}
pub open spec fn entries_stamped(a: Seq<Entry>, b: Seq<Entry>, e: u64, p: Set<(usize,usize)>) -> bool {
    entries_frame(a, b, e) && forall|k: int| 0 <= k < a.len() && touches((#[trigger] a[k]).meta, p) ==> b[k].meta.epoch == e
}
pub open spec fn chunk_stamped(a: Chunk, b: Chunk, e: u64, p: Set<(usize,usize)>) -> bool {
    a.pa == b.pa && a.role == b.role && entries_stamped(a.ms[0]@, b.ms[0]@, e, p) && entries_stamped(a.ms[1]@, b.ms[1]@, e, p)
}

// second phase of takeover_master: verbatim loop nest
fn second_phase(cluster: &mut Cluster, peer_position: &HashSet<(usize, usize)>, new_epoch: u64)
    requires vstd::std_specs::hash::obeys_key_model::<(usize, usize)>()
    ensures
        final(cluster).chunks@.len() == old(cluster).chunks@.len(),
        forall|j: int| 0 <= j < old(cluster).chunks@.len() ==> chunk_stamped(#[trigger] old(cluster).chunks@[j], final(cluster).chunks@[j], new_epoch, peer_position@),
        final(cluster).epoch == new_epoch,
{
    broadcast use axiom_tuple_key_model;
    for chunk in it: cluster.chunks.iter_mut()
        invariant
            vstd::std_specs::hash::obeys_key_model::<(usize, usize)>(),
            it.seq().len() == old(cluster).chunks@.len(),
            forall|i: int| 0 <= i < it.seq().len() ==> *(#[trigger] it.seq()[i]) == old(cluster).chunks@[i],
            forall|i: int| 0 <= i < it.index@ ==> chunk_stamped(old(cluster).chunks@[i], *final(#[trigger] it.seq()[i]), new_epoch, peer_position@),
    {
        for migrating_slots in it2: chunk.ms.iter_mut()
            invariant
                vstd::std_specs::hash::obeys_key_model::<(usize, usize)>(),
                it2.seq().len() == 2,
                forall|i: int| 0 <= i < 2 ==> (*(#[trigger] it2.seq()[i]))@ == old(cluster).chunks@[it.index@].ms[i]@,
                forall|i: int| 0 <= i < it2.index@ ==> entries_stamped(old(cluster).chunks@[it.index@].ms[i]@, (*final(#[trigger] it2.seq()[i]))@, new_epoch, peer_position@),
        {
            for migrating_slot_range in it3: migrating_slots.iter_mut()
                invariant
                    vstd::std_specs::hash::obeys_key_model::<(usize, usize)>(),
                    it3.seq().len() == old(cluster).chunks@[it.index@].ms[it2.index@]@.len(),
                    forall|i: int| 0 <= i < it3.seq().len() ==> *(#[trigger] it3.seq()[i]) == old(cluster).chunks@[it.index@].ms[it2.index@]@[i],
                    forall|i: int| 0 <= i < it3.index@ ==> entry_frame(old(cluster).chunks@[it.index@].ms[it2.index@]@[i], *final(#[trigger] it3.seq()[i]), new_epoch)
                        && (touches(old(cluster).chunks@[it.index@].ms[it2.index@]@[i].meta, peer_position@) ==> final(it3.seq()[i]).meta.epoch == new_epoch),
            {
                let src_index = migrating_slot_range.meta.si;
                let src_part = migrating_slot_range.meta.sp;
                let dst_index = migrating_slot_range.meta.di;
                let dst_part = migrating_slot_range.meta.dp;
                if peer_position.contains(&(src_index, src_part))
                    || peer_position.contains(&(dst_index, dst_part))
                {
                    migrating_slot_range.meta.epoch = new_epoch;
                }
            }
        }
    }
    cluster.epoch = new_epoch;
}
}
fn main() {}
