import re,sys
def indent(t):
    out=[]; inside=False
    for l in t.splitlines(True):
        starts_inside=inside
        # toggle on each ''' occurrence
        n=l.count("'''")
        if n%2==1: inside=not inside
        out.append(l if (starts_inside or not l.strip()) else '    '+l)
    return ''.join(out)
b=open('/verif/design_probes/w3_build.py').read()
p=open('/verif/design_probes/w3_post.py').read()
i=b.index("# ---- D10:"); j=b.index("head='''")
body=b[i:j]
k=b.index("specs='''")
specs_and_contract=b[k:b.index("body=f[f.index(")]
post=p
post=re.sub(r"^s=open\('/tmp/km/x/w3.rs'\).read\(\)\n", "", post, flags=re.M)
post=re.sub(r"^open\('/tmp/km/x/w3.rs','w'\).write\(s\)\n", "", post, flags=re.M)
post=post.replace("import re\n","",1)
post=re.sub(r"def must\(old,new,count=1\):\n    global s\n    assert s.count\(old\)>=1, old\[:60\]\n    s=s.replace\(old,new,count\)\n","",post)
out='''# C06 / C04 / C01: MetaStoreUpdate::takeover_master (src/broker/update.rs) against the complete functional
# description takeover_post (DESIGN 4.6).  Ported from the calibrated probe (design_probes/w3_build.py, w3_post.py).
import re
import vlib
from vlib import Undecided
from units import broker_common

def build(U, standalone=True):
    S = U.src('src/broker/update.rs')
    fobj = S.fn('takeover_master')
    fobj.r1_logging()
    f = fobj.text
    cnt = 0; cnt2 = 0; cnt3 = 0
    def need(c, what):
        if not c:
            raise Undecided('takeover_master: anchor lost: ' + what)
'''
body=body.replace("assert f.count(\"                    return Ok(());\")==2","need(f.count(\"                    return Ok(());\")==2, 'two early returns')")
body=body.replace("assert len(loops)==8, len(loops)","need(len(loops)==8, 'expected 8 for loops, found %d' % len(loops))")
body=body.replace("assert cnt2==4, cnt2","need(cnt2==4, 'four stamping loop bodies')")
body=body.replace("assert cnt==2, cnt","need(cnt==2, 'two plain breaks')")
body=body.replace("global cnt2","nonlocal cnt2").replace("global cnt","nonlocal cnt")
body=body.replace("cnt2=0\n","").replace("cnt=0\n","")
out+=indent(body)
out+=indent(specs_and_contract)
out+='''    body = f[f.index(') -> Result<(), MetaStoreError> {') + len(') -> Result<(), MetaStoreError> '):]
    if standalone:
        broker_common.head(U)
        s = broker_common.types(U) + specs + contract + body + "\\n}\\n"
    else:
        s = specs + contract + body + "\\n}\\n"
    def must(old, new, count=1):
        nonlocal s
        need(s.count(old) >= 1, old[:60])
        s = s.replace(old, new, count)
'''
post=post.replace("assert len(parts)==3, len(parts)","need(len(parts)==3, 'two `if both_moved {` blocks')")
post=post.replace("assert cnt3==2, cnt3","need(cnt3==2, 'two both_moved blocks followed by hints')")
post=post.replace("global cnt3","nonlocal cnt3").replace("cnt3=0\n","")
out+=indent(post)
out+='''    fobj.text = s
    U.add_fn(fobj)
    U.prelude('c06_lemma.rs')
    if standalone:
        U.add("} // verus!\\nfn main() {}\\n")
'''
open('/verif/units/takeover.py','w').write(out)
