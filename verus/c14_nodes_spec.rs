// ---- C14: what CLUSTER NODES must list (statement level), over abstract text ----
pub uninterp spec fn dec_chars(n: nat) -> Seq<char>;                 // decimal text of a number
pub uninterp spec fn node_id_of(name: ClusterName, addr: Seq<char>) -> Seq<char>;
// one token per range: "a" for a single slot, "a-b" otherwise
pub open spec fn range_tok(r: Range) -> Seq<char> { if r.0 == r.1 { dec_chars(r.0 as nat) } else { dec_chars(r.0 as nat) + seq!['-'] + dec_chars(r.1 as nat) } }
pub open spec fn toks_of_ranges(rs: Seq<Range>, n: nat) -> Seq<Seq<char>>
    decreases n
{ if n == 0 || n > rs.len() { Seq::<Seq<char>>::empty() } else { toks_of_ranges(rs, (n - 1) as nat).push(range_tok(rs[n - 1])) } }
// the tokens of the first n slot ranges of a node: every advertised one contributes all its ranges, an ignored one nothing
pub open spec fn toks_of_node(srs: Seq<SlotRange>, states: Map<RangeList, MigrationState>, n: nat) -> Seq<Seq<char>>
    decreases n
{
    if n == 0 || n > srs.len() { Seq::<Seq<char>>::empty() } else {
        let prev = toks_of_node(srs, states, (n - 1) as nat);
        if advertised(srs[n - 1], states) { prev + toks_of_ranges(srs[n - 1].range_list.0@, srs[n - 1].range_list.0@.len()) } else { prev }
    }
}
// tokens joined by single spaces
pub open spec fn join_sp(ts: Seq<Seq<char>>, n: nat) -> Seq<char>
    decreases n
{ if n == 0 || n > ts.len() { Seq::<char>::empty() } else if n == 1 { ts[0] } else { join_sp(ts, (n - 1) as nat) + seq![' '] + ts[n - 1] } }
pub uninterp spec fn line_head(id: Seq<char>, address: Seq<char>, flags: Seq<char>, epoch: u64) -> Seq<char>;   // "<id> <addr> <flags> - 0 0 <epoch> connected"
pub open spec fn shown_addr(addr: Seq<char>, v2: bool, cport: usize) -> Seq<char> { if v2 { addr + seq!['@'] + dec_chars(cport as nat) } else { addr } }
pub open spec fn flags_of(local: bool) -> Seq<char> { if local { "myself,master"@ } else { "master"@ } }
// one line per node: head, then " " + tokens joined by spaces (nothing if there is no token), then newline
pub open spec fn node_line(name: ClusterName, addr: Seq<char>, srs: Seq<SlotRange>, states: Map<RangeList, MigrationState>, epoch: u64, local: bool, v2: bool, cport: usize) -> Seq<char> {
    let ts = toks_of_node(srs, states, srs.len());
    let body = join_sp(ts, ts.len());
    line_head(node_id_of(name, addr), shown_addr(addr, v2, cport), flags_of(local), epoch) + (if body.len() == 0 { Seq::<char>::empty() } else { seq![' '] + body }) + seq!['\n']
}
pub open spec fn nodes_text(name: ClusterName, ks: Seq<String>, m: Map<String, Vec<SlotRange>>, states: Map<RangeList, MigrationState>, epoch: u64, local: bool, v2: bool, cport: usize, n: nat) -> Seq<char>
    decreases n
{
    if n == 0 || n > ks.len() { Seq::<char>::empty() } else {
        nodes_text(name, ks, m, states, epoch, local, v2, cport, (n - 1) as nat) + node_line(name, ks[n - 1]@, m[ks[n - 1]]@, states, epoch, local, v2, cport)
    }
}
pub open spec fn str_views(v: Seq<String>) -> Seq<Seq<char>> { Seq::new(v.len(), |i: int| v[i]@) }

// ---- shims (trusted): string primitives ----
#[verifier::external_body] fn gen_node_id(cluster_name: &ClusterName, addr: &str) -> (r: String) ensures r@ == node_id_of(*cluster_name, addr@) { unimplemented!() }
#[verifier::external_body] fn shim_string_empty() -> (r: String) ensures r@.len() == 0 { unimplemented!() }
#[verifier::external_body] fn shim_push_char(s: &mut String, c: char) ensures final(s)@ == old(s)@.push(c) { unimplemented!() }
#[verifier::external_body] fn shim_push_str(s: &mut String, t: &String) ensures final(s)@ == old(s)@ + t@ { unimplemented!() }
#[verifier::external_body] fn shim_is_empty(s: &String) -> (r: bool) ensures r == (s@.len() == 0) { unimplemented!() }
#[verifier::external_body] fn shim_usize_to_string(n: usize) -> (r: String) ensures r@ == dec_chars(n as nat) { unimplemented!() }
#[verifier::external_body] fn shim_fmt_range(a: usize, b: usize) -> (r: String) ensures r@ == dec_chars(a as nat) + seq!['-'] + dec_chars(b as nat) { unimplemented!() }
#[verifier::external_body] fn shim_fmt_addr_cport(addr: &String, cport: usize) -> (r: String) ensures r@ == addr@ + seq!['@'] + dec_chars(cport as nat) { unimplemented!() }
#[verifier::external_body] fn shim_join_sp(v: &Vec<String>) -> (r: String) ensures r@ == join_sp(str_views(v@), v@.len()) { unimplemented!() }
#[verifier::external_body] fn shim_fmt_node_line(id: String, address: String, flags: &str, epoch: u64, slot_range: String) -> (r: String)
    ensures r@ == line_head(id@, address@, flags@, epoch) + slot_range@ + seq!['\n'] { unimplemented!() }
#[verifier::external_body] fn shim_clone_slot_range(x: &SlotRange) -> (r: SlotRange) ensures r == *x { unimplemented!() }
#[verifier::external_body] fn shim_clone_string(s: &String) -> (r: String) ensures r@ == s@ { unimplemented!() }
#[verifier::external_body]
fn shim_ref_entries<'a>(m: &'a HashMap<String, Vec<SlotRange>>) -> (r: (Vec<(&'a String, &'a Vec<SlotRange>)>, Ghost<Seq<String>>))
    ensures r.1@.no_duplicates(), r.1@.len() == r.0@.len(), forall|k: String| m@.contains_key(k) <==> r.1@.contains(k),
        forall|i: int| 0 <= i < r.0@.len() ==> *(#[trigger] r.0@[i]).0 == r.1@[i] && m@.contains_key(r.1@[i]) && *r.0@[i].1 == m@[r.1@[i]],
{ unimplemented!() }
pub proof fn lemma_toks_of_ranges_step(rs: Seq<Range>, n: nat)
    requires 0 < n <= rs.len()
    ensures toks_of_ranges(rs, n) == toks_of_ranges(rs, (n - 1) as nat).push(range_tok(rs[n - 1]))
{}

// ---- agreement: CLUSTER NODES lists on a node's line exactly one token per range of adv_ranges (the definition shared with CLUSTER SLOTS) ----
pub open spec fn toks_of(rs: Seq<Range>) -> Seq<Seq<char>> { Seq::new(rs.len(), |i: int| range_tok(rs[i])) }
pub proof fn lemma_toks_of_ranges_is_map(rs: Seq<Range>, n: nat)
    requires n <= rs.len()
    ensures toks_of_ranges(rs, n) == toks_of(rs.subrange(0, n as int))
    decreases n
{
    if n > 0 { lemma_toks_of_ranges_is_map(rs, (n - 1) as nat); assert(rs.subrange(0, n as int) =~= rs.subrange(0, n - 1).push(rs[n - 1])); }
    assert(toks_of_ranges(rs, n) =~= toks_of(rs.subrange(0, n as int)));
}
pub proof fn c14_nodes_lists_adv_ranges(srs: Seq<SlotRange>, states: Map<RangeList, MigrationState>, n: nat)
    requires n <= srs.len()
    ensures toks_of_node(srs, states, n) == toks_of(adv_ranges(srs, states, n))
    decreases n
{
    if n > 0 {
        c14_nodes_lists_adv_ranges(srs, states, (n - 1) as nat);
        let rs = srs[n - 1].range_list.0@;
        lemma_toks_of_ranges_is_map(rs, rs.len());
        assert(rs.subrange(0, rs.len() as int) =~= rs);
    }
    assert(toks_of_node(srs, states, n) =~= toks_of(adv_ranges(srs, states, n)));
}
