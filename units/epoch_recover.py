# C13: MetaStore::recover_epoch / force_bump_all_epoch / restore (src/broker/store.rs) + the `+ 1` call site in
# src/broker/storage.rs (DESIGN 4.13)
import re
import vlib
from units import broker_common, takeover

SPEC = '''
#[verifier::external_body]
fn shim_keys<V>(m: &HashMap<ClusterName, V>) -> (r: Vec<ClusterName>)
    ensures forall|k: ClusterName| m@.contains_key(k) <==> r@.contains(k), r@.no_duplicates()
{ unimplemented!() }
fn max(a: u64, b: u64) -> (r: u64) ensures r == (if a >= b { a } else { b }) { if a >= b { a } else { b } }
pub open spec fn same_but_epoch(a: ClusterStore, b: ClusterStore) -> bool { a.chunks == b.chunks && a.config == b.config && a.name == b.name }
pub open spec fn all_epochs(s: MetaStore, e: u64) -> bool { forall|k: ClusterName| s.clusters@.contains_key(k) ==> (#[trigger] s.clusters@[k]).epoch == e }
pub open spec fn rest_same(o: MetaStore, n: MetaStore) -> bool {
    n.version == o.version && n.all_proxies == o.all_proxies && n.failed_proxies == o.failed_proxies && n.failures == o.failures
    && n.enable_ordered_proxy == o.enable_ordered_proxy
    && n.clusters@.dom() == o.clusters@.dom() && forall|k: ClusterName| n.clusters@.contains_key(k) ==> same_but_epoch(#[trigger] n.clusters@[k], o.clusters@[k])
}
'''
INV = '''            invariant
                vstd::std_specs::hash::obeys_key_model::<ClusterName>(),
                self.global_epoch == new_epoch, self.version == old(self).version, self.enable_ordered_proxy == old(self).enable_ordered_proxy,
                self.all_proxies == old(self).all_proxies, self.failed_proxies == old(self).failed_proxies, self.failures == old(self).failures,
                self.clusters@.dom() == old(self).clusters@.dom(),
                forall|kk: ClusterName| self.clusters@.contains_key(kk) <==> verif_keys@.contains(kk),
                forall|i: int| 0 <= i < it.index@ ==> (#[trigger] self.clusters@[verif_keys@[i]]).epoch == new_epoch,
                forall|kk: ClusterName| self.clusters@.contains_key(kk) ==> same_but_epoch(#[trigger] self.clusters@[kk], old(self).clusters@[kk]),'''
HINT_IN = "            proof { axiom_key_of_same::<ClusterName>(verif_k); assert(*verif_k == verif_keys@[it.index@]); assert(verif_keys@.contains(*verif_k)); }"
HINT_AFTER = '''        proof {
            assert forall|kk: ClusterName| self.clusters@.contains_key(kk) implies (#[trigger] self.clusters@[kk]).epoch == new_epoch by {
                assert(verif_keys@.contains(kk));
                let i = choose|i: int| 0 <= i < verif_keys@.len() && verif_keys@[i] == kk;
                assert(self.clusters@[verif_keys@[i]].epoch == new_epoch);
            }
        }'''

def annotate_d9(f):
    vlib.d9_values_mut(f)
    if re.search(r'\{\s*continue;\s*\}', f.text):     # not in the repository text; keeps a changed text inside the verifier's subset
        vlib.d8_continue(f)
    ls = f.loops()
    if len(ls) != 1:
        f._lost('expected one loop')
    # hint after the loop: find the closing brace of the loop body
    mask = vlib.code_mask(f.text)
    bc = vlib.match_brace(f.text, mask, ls[0][1])
    f.text = f.text[:bc + 1] + '\n' + HINT_AFTER + f.text[bc + 1:]
    f.after('for verif_k in verif_keys.iter() {', HINT_IN)
    f.loop_spec(0, INV, itname='it')

def build(U):
    broker_common.head(U)
    U.add(broker_common.types(U))
    U.add(SPEC)
    S = U.src('src/broker/store.rs')
    G = U.src('src/broker/storage.rs')
    U.add('impl ClusterStore {\n    // out of reach (iterator any() chain); not called by the functions under contract in the repository text\n    #[verifier::external_body] pub fn is_migrating(&self) -> bool { unimplemented!() }\n}\n')
    U.add('impl MetaStore {\n')
    rec = S.fn('recover_epoch', within=r'impl MetaStore\b')
    annotate_d9(rec)
    rec.header('''    pub fn recover_epoch(&mut self, exsting_largest_epoch: u64)
        requires old(self).global_epoch < u64::MAX, vstd::std_specs::hash::obeys_key_model::<ClusterName>(),
        ensures final(self).global_epoch > old(self).global_epoch, final(self).global_epoch >= exsting_largest_epoch,
            final(self).global_epoch == (if exsting_largest_epoch >= old(self).global_epoch + 1 { exsting_largest_epoch } else { (old(self).global_epoch + 1) as u64 }),
            all_epochs(*final(self), final(self).global_epoch), rest_same(*old(self), *final(self)),''')
    U.add_fn(rec)
    fb = S.fn('force_bump_all_epoch', within=r'impl MetaStore\b')
    annotate_d9(fb)
    fb.header('''    pub fn force_bump_all_epoch(&mut self, new_epoch: u64) -> (r: Result<(), MetaStoreError>)
        requires vstd::std_specs::hash::obeys_key_model::<ClusterName>(),
        ensures r is Ok <==> new_epoch > old(self).global_epoch,
            r is Ok ==> final(self).global_epoch == new_epoch && all_epochs(*final(self), new_epoch) && rest_same(*old(self), *final(self)),
            r is Err ==> *final(self) == *old(self),''')
    U.add_fn(fb)
    rs = S.fn('restore', within=r'impl MetaStore\b')
    rs.header('''    pub fn restore(&mut self, other: MetaStore) -> (r: Result<(), MetaStoreError>)
        ensures r is Ok <==> (old(self).version@ == other.version@ && old(self).global_epoch <= other.global_epoch),
            r is Ok ==> *final(self) == other, r is Err ==> *final(self) == *old(self),''')
    U.add_fn(rs)
    U.add_fn(takeover.bump_global_epoch(U))
    U.add('}\n')
    # call site: MemoryStorage::recover_epoch passes `exsting_largest_epoch + 1` (syntactic scan of the async wrapper)
    ok, hits = G.scan('MemoryStorage::recover_epoch calls store.recover_epoch(exsting_largest_epoch + 1)',
                      r'async fn recover_epoch\(&self, (\w+): u64\) -> Result<\(\), MetaStoreError> \{\s*self\.store\.write\(\)\.recover_epoch\(\1 \+ 1\);\s*Ok\(\(\)\)\s*\}', 1)
    U.add('''
// call site src/broker/storage.rs: `self.store.write().recover_epoch(exsting_largest_epoch + 1)` (scan above)
pub proof fn lemma_recovered_epoch_exceeds_every_proxy(old_global: u64, new_global: u64, m: u64)
    requires m < u64::MAX, old_global < u64::MAX,
        new_global == (if m + 1 >= old_global + 1 { (m + 1) as u64 } else { (old_global + 1) as u64 }),
    ensures new_global > m, new_global > old_global
{}
''')
    U.add("} // verus!\nfn main() {}\n")
    U.trust('shim_keys (D9): all keys of the map, no duplicates', 'std::cmp::max on u64 (R6)',
            'MemoryStorage lock wrapper (parking_lot RwLock write guard) read, not verified; u64::MAX excluded by precondition')

MUST_FAIL = '''
proof fn must_fail_recover_not_trivial(o: MetaStore, n: MetaStore) requires rest_same(o, n) ensures all_epochs(n, n.global_epoch) { }
proof fn must_fail_plus_one_needed(old_global: u64, new_global: u64, m: u64)
    requires m < u64::MAX, old_global < u64::MAX, new_global == (if m >= old_global + 1 { m } else { (old_global + 1) as u64 }),
    ensures new_global > m
{}
'''
