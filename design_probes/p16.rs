use vstd::prelude::*;
use std::collections::HashMap;
verus! {
pub const SLOT_NUM: usize = 16384;
pub struct SlotMapData { pub slot_arr: Vec<Option<usize>>, pub addrs: Vec<String> }
impl SlotMapData {
    pub fn new(slot_map: HashMap<String, Vec<(usize, usize)>>) -> SlotMapData {
        let mut slot_arr = Vec::with_capacity(SLOT_NUM);
        let mut addrs = Vec::with_capacity(slot_map.len());
        for _ in 0..SLOT_NUM {
            slot_arr.push(None);
        }
        for (addr, slots) in slot_map.into_iter() {
            addrs.push(addr);
            for range in slots {
                let (start, end) = range;
                if start > end {
                    continue;
                }
                for s in start..=end {
                    if s >= SLOT_NUM {
                        break;
                    }
                    if let Some(opt) = slot_arr.get_mut(s) {
                        *opt = Some(addrs.len() - 1);
                    }
                }
            }
        }
        SlotMapData { slot_arr, addrs }
    }
    pub fn get(&self, slot: usize) -> Option<&str> {
        let addr_index = self.slot_arr.get(slot).and_then(|opt| *opt)?;
        self.addrs.get(addr_index).map(|s| s.as_str())
    }
}
}
fn main() {}
