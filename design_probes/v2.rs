use vstd::prelude::*;
use std::collections::HashSet;
verus! {

pub struct Range(pub usize, pub usize);
pub struct RangeList(pub Vec<Range>);
pub struct MigrationMeta { pub epoch: u64, pub src_proxy_address: String, pub src_node_address: String, pub dst_proxy_address: String, pub dst_node_address: String }
pub enum SlotRangeTag { Migrating(MigrationMeta), Importing(MigrationMeta), None }
pub struct SlotRange { pub range_list: RangeList, pub tag: SlotRangeTag }

#[derive(Clone, Copy, PartialEq, Eq)]
pub enum ChunkRolePosition { Normal, FirstChunkMaster, SecondChunkMaster }

pub struct MigrationMetaStore { pub epoch: u64, pub src_chunk_index: usize, pub src_chunk_part: usize, pub dst_chunk_index: usize, pub dst_chunk_part: usize }
pub struct MigrationSlotRangeStore { pub range_list: RangeList, pub is_migrating: bool, pub meta: MigrationMetaStore }

pub struct ChunkStore {
    pub role_position: ChunkRolePosition,
    pub stable_slots: [Option<SlotRange>; 2],
    pub migrating_slots: [Vec<MigrationSlotRangeStore>; 2],
    pub proxy_addresses: [String; 2],
    pub hosts: [String; 2],
    pub node_addresses: [String; 4],
}
pub struct ClusterStore { pub epoch: u64, pub chunks: Vec<ChunkStore> }

pub enum MetaStoreError { ClusterNotFound }



pub open spec fn proxy_of_node(k: int) -> int { k / 2 }
pub open spec fn master_node(rp: ChunkRolePosition, p: int) -> int {
    match rp {
        ChunkRolePosition::Normal => 2 * p,
        ChunkRolePosition::FirstChunkMaster => if proxy_of_node(2 * p) == 0 { 2 * p } else { 3 - 2 * p },
        ChunkRolePosition::SecondChunkMaster => if proxy_of_node(2 * p) == 1 { 2 * p } else { 3 - 2 * p },
    }
}
pub open spec fn valid_meta(m: MigrationMetaStore, chunks: Seq<ChunkStore>) -> bool {
    m.src_chunk_index < chunks.len() && m.dst_chunk_index < chunks.len() && m.src_chunk_part < 2 && m.dst_chunk_part < 2
}
pub open spec fn master_node_addr(chunks: Seq<ChunkStore>, c: int, p: int) -> Seq<char> { chunks[c].node_addresses[master_node(chunks[c].role_position, p)]@ }
pub open spec fn master_proxy_addr(chunks: Seq<ChunkStore>, c: int, p: int) -> Seq<char> { chunks[c].proxy_addresses[master_node(chunks[c].role_position, p) / 2]@ }
impl Clone for RangeList { #[verifier::external_body] fn clone(&self) -> (r: Self) ensures r == *self { unimplemented!() } }

pub open spec fn meta_ok(m: MigrationMeta, ms: MigrationMetaStore, chunks: Seq<ChunkStore>) -> bool {
    m.epoch == ms.epoch
    && m.src_node_address@ == master_node_addr(chunks, ms.src_chunk_index as int, ms.src_chunk_part as int)
    && m.src_proxy_address@ == master_proxy_addr(chunks, ms.src_chunk_index as int, ms.src_chunk_part as int)
    && m.dst_node_address@ == master_node_addr(chunks, ms.dst_chunk_index as int, ms.dst_chunk_part as int)
    && m.dst_proxy_address@ == master_proxy_addr(chunks, ms.dst_chunk_index as int, ms.dst_chunk_part as int)
}
impl MigrationSlotRangeStore {
    pub fn to_slot_range(&self, chunks: &[ChunkStore]) -> (r: SlotRange)
        requires valid_meta(self.meta, chunks@)
        ensures r.range_list == self.range_list,
            match r.tag {
                SlotRangeTag::Migrating(m) => self.is_migrating && meta_ok(m, self.meta, chunks@),
                SlotRangeTag::Importing(m) => !self.is_migrating && meta_ok(m, self.meta, chunks@),
                SlotRangeTag::None => false,
            }
{
        let src_chunk = chunks.get(self.meta.src_chunk_index).expect("get_cluster");
        let src_proxy_index =
            Self::chunk_part_to_proxy_index(self.meta.src_chunk_part, src_chunk.role_position);
        let src_proxy_address = src_chunk
            .proxy_addresses
            .get(src_proxy_index)
            .expect("get_cluster")
            .clone();
        let src_node_index =
            Self::chunk_part_to_node_index(self.meta.src_chunk_part, src_chunk.role_position);
        let src_node_address = src_chunk
            .node_addresses
            .get(src_node_index)
            .expect("get_cluster")
            .clone();

        let dst_chunk = chunks.get(self.meta.dst_chunk_index).expect("get_cluster");
        let dst_proxy_index =
            Self::chunk_part_to_proxy_index(self.meta.dst_chunk_part, dst_chunk.role_position);
        let dst_proxy_address = dst_chunk
            .proxy_addresses
            .get(dst_proxy_index)
            .expect("get_cluster")
            .clone();
        let dst_node_index =
            Self::chunk_part_to_node_index(self.meta.dst_chunk_part, dst_chunk.role_position);
        let dst_node_address = dst_chunk
            .node_addresses
            .get(dst_node_index)
            .expect("get_cluster")
            .clone();

        let meta = MigrationMeta {
            epoch: self.meta.epoch,
            src_proxy_address,
            src_node_address,
            dst_proxy_address,
            dst_node_address,
        };
        if self.is_migrating {
            SlotRange {
                range_list: self.range_list.clone(),
                tag: SlotRangeTag::Migrating(meta),
            }
        } else {
            SlotRange {
                range_list: self.range_list.clone(),
                tag: SlotRangeTag::Importing(meta),
            }
        }
    }
fn chunk_part_to_proxy_index(chunk_part: usize, role_position: ChunkRolePosition) -> (r: usize)
        requires chunk_part < 2
        ensures r == master_node(role_position, chunk_part as int) / 2
    {
        match (chunk_part, role_position) {
            (0, ChunkRolePosition::SecondChunkMaster) => 1,
            (1, ChunkRolePosition::FirstChunkMaster) => 0,
            (i, _) => i,
        }
    }
fn chunk_part_to_node_index(chunk_part: usize, role_position: ChunkRolePosition) -> (r: usize)
        requires chunk_part < 2
        ensures r == master_node(role_position, chunk_part as int)
    {
        match (chunk_part, role_position) {
            (0, ChunkRolePosition::SecondChunkMaster) => 3,
            (1, ChunkRolePosition::FirstChunkMaster) => 1,
            (i, _) => 2 * i,
        }
    }
}
} // verus!
fn main() {}
