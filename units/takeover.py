# C06 / C04 / C01: MetaStoreUpdate::takeover_master (src/broker/update.rs) against the complete functional
# description takeover_post (DESIGN 4.6).  Ported from the calibrated probe (design_probes/w3_build.py, w3_post.py).
import re
import vlib
from vlib import Undecided
from units import broker_common

def parts(U):
    S = U.src('src/broker/update.rs')
    fobj = S.fn('takeover_master')
    fobj.r1_logging()
    f = fobj.text
    cnt = 0; cnt2 = 0; cnt3 = 0
    def need(c, what):
        if not c:
            raise Undecided('takeover_master: anchor lost: ' + what)
    # ---- D10: return inside outer for -> flag + break (two sites), declared before first loop ----
    f=f.replace("        for chunk in cluster.chunks.iter_mut() {\n            if chunk.proxy_addresses[0]","        let mut verif_ret: Option<Result<(), MetaStoreError>> = None;\n        for chunk in cluster.chunks.iter_mut() {\n            if chunk.proxy_addresses[0]",1)
    need(f.count("                    return Ok(());")==2, 'two early returns')
    f=f.replace("                    return Ok(());","                    { verif_ret = Some(Ok(())); break; }")
    f=f.replace("            }\n        }\n\n        for chunk in cluster.chunks.iter_mut() {\n            for migrating_slots","            }\n        }\n        if let Some(verif_r) = verif_ret { return verif_r; }\n\n        for chunk in cluster.chunks.iter_mut() {\n            for migrating_slots",1)

    # ---- loop annotations by ordinal ----
    loops=[m.start() for m in re.finditer(r'\n( +)for [^\n]*\{(?=\n)', f)]
    need(len(loops)==8, 'expected 8 for loops, found %d' % len(loops))
    def annotate(f, ordinal, itname, inv):
        ms=list(re.finditer(r'\n( +)for ([^\n]*?) in ([^\n]*) \{(?=\n)', f))
        m=ms[ordinal]
        ind=m.group(1)
        new="\n%sfor %s in %s: %s\n%s\n%s{"%(ind,m.group(2),itname,m.group(3),inv,ind)
        return f[:m.start()]+new+f[m.end():]

    KM="vstd::std_specs::hash::obeys_key_model::<(usize, usize)>()"
    OC="old_cluster"   # ghost copy of *cluster before loops
    def inner_stamp_inv(p):
        return f'''                    invariant
                        {KM},
                        0 <= it.index@ < {OC}.chunks@.len(),
                        it2.seq().len() == {OC}.chunks@[it.index@].migrating_slots[{p}]@.len(),
                        forall|i: int| 0 <= i < it2.seq().len() ==> *(#[trigger] it2.seq()[i]) == {OC}.chunks@[it.index@].migrating_slots[{p}]@[i],
                        forall|i: int| 0 <= i < it2.index@ ==> entry_post({OC}.chunks@[it.index@].migrating_slots[{p}]@[i], *final(#[trigger] it2.seq()[i]), true, new_epoch),
                        peer_position@ == positions_of({OC}.chunks@[it.index@].migrating_slots[{p}]@.subrange(0, it2.index@)),'''
    def inner_stamp_inv2(p, first):
        # second stamping loop (other half p), after the own half `first` was fully stamped
        return f'''                        invariant
                            {KM},
                            0 <= it.index@ < {OC}.chunks@.len(),
                            it2.seq().len() == {OC}.chunks@[it.index@].migrating_slots[{p}]@.len(),
                            forall|i: int| 0 <= i < it2.seq().len() ==> *(#[trigger] it2.seq()[i]) == {OC}.chunks@[it.index@].migrating_slots[{p}]@[i],
                            forall|i: int| 0 <= i < it2.index@ ==> entry_post({OC}.chunks@[it.index@].migrating_slots[{p}]@[i], *final(#[trigger] it2.seq()[i]), true, new_epoch),
                            peer_position@ == positions_of({OC}.chunks@[it.index@].migrating_slots[{first}]@ + {OC}.chunks@[it.index@].migrating_slots[{p}]@.subrange(0, it2.index@)),'''
    # annotate from last to first so that ordinals stay valid
    f=annotate(f,7,'it3',f'''                    invariant
                        {KM},
                        0 <= it.index@ < mid.chunks@.len(), 0 <= it2.index@ < 2,
                        it3.seq().len() == mid.chunks@[it.index@].migrating_slots[it2.index@]@.len(),
                        forall|i: int| 0 <= i < it3.seq().len() ==> *(#[trigger] it3.seq()[i]) == mid.chunks@[it.index@].migrating_slots[it2.index@]@[i],
                        forall|i: int| 0 <= i < it3.index@ ==> entry_post(mid.chunks@[it.index@].migrating_slots[it2.index@]@[i], *final(#[trigger] it3.seq()[i]), touches(mid.chunks@[it.index@].migrating_slots[it2.index@]@[i].meta, peer_position@), new_epoch),''')
    f=annotate(f,6,'it2',f'''                invariant
                    {KM},
                    0 <= it.index@ < mid.chunks@.len(),
                    it2.seq().len() == 2,
                    forall|i: int| 0 <= i < 2 ==> (*(#[trigger] it2.seq()[i]))@ == mid.chunks@[it.index@].migrating_slots[i]@,
                    forall|i: int| 0 <= i < it2.index@ ==> entries_post(mid.chunks@[it.index@].migrating_slots[i]@, (*final(#[trigger] it2.seq()[i]))@, peer_position@, false, new_epoch),''')
    f=annotate(f,5,'it',f'''            invariant
                {KM},
                it.seq().len() == mid.chunks@.len(),
                forall|i: int| 0 <= i < it.seq().len() ==> *(#[trigger] it.seq()[i]) == mid.chunks@[i],
                forall|i: int| 0 <= i < it.index@ ==> chunk_post2(mid.chunks@[i], *final(#[trigger] it.seq()[i]), peer_position@, new_epoch),''')
    f=annotate(f,4,'it2',inner_stamp_inv2(0,1))
    f=annotate(f,3,'it2',inner_stamp_inv(1))
    f=annotate(f,2,'it2',inner_stamp_inv2(1,0))
    f=annotate(f,1,'it2',inner_stamp_inv(0))
    f=annotate(f,0,'it',f'''            invariant_except_break
                verif_ret is None,
                peer_position@ == Set::<(usize, usize)>::empty(),
                forall|i: int| 0 <= i < it.index@ ==> !is_hit({OC}.chunks@[i], failed_proxy_address@),
            invariant
                {KM},
                verif_ret is Some ==> verif_ret == Some(Ok::<(), MetaStoreError>(())),
                it.seq().len() == {OC}.chunks@.len(),
                forall|i: int| 0 <= i < it.seq().len() ==> *(#[trigger] it.seq()[i]) == {OC}.chunks@[i],
                forall|i: int| 0 <= i < it.index@ - 1 ==> !is_hit({OC}.chunks@[i], failed_proxy_address@),
                forall|i: int| 0 <= i < it.index@ && !is_hit({OC}.chunks@[i], failed_proxy_address@) ==> *final(#[trigger] it.seq()[i]) == {OC}.chunks@[i],
                forall|i: int| 0 <= i < it.index@ && is_hit({OC}.chunks@[i], failed_proxy_address@) ==> hit_post({OC}.chunks@[i], *final(#[trigger] it.seq()[i]), failed_proxy_address@, new_epoch, verif_ret is Some, peer_position@),
            ensures
                it.index@ == it.seq().len() || (it.index@ >= 1 && is_hit({OC}.chunks@[it.index@ - 1], failed_proxy_address@)),
                verif_ret is None && !(it.index@ >= 1 && is_hit({OC}.chunks@[it.index@ - 1], failed_proxy_address@)) ==> peer_position@ == Set::<(usize, usize)>::empty(),''')

    # proof hints (anchored on source text)
    for p in ['0','1']:
        pass
    hint_tpl='''                    proof {
                        let sq = old_cluster.chunks@[it.index@].migrating_slots[PART]@;
                        assert(sq.subrange(0, it2.index@ + 1).drop_last() =~= sq.subrange(0, it2.index@));
                        assert(sq.subrange(0, it2.index@ + 1).last() == sq[it2.index@]);
                    }
'''
    hint2_tpl='''                    proof {
                        let s1 = old_cluster.chunks@[it.index@].migrating_slots[FIRST]@;
                        let sq = old_cluster.chunks@[it.index@].migrating_slots[PART]@;
                        assert((s1 + sq.subrange(0, it2.index@ + 1)).drop_last() =~= s1 + sq.subrange(0, it2.index@));
                        assert((s1 + sq.subrange(0, it2.index@ + 1)).last() == sq[it2.index@]);
                    }
'''
    hints=[hint_tpl.replace('PART','0'), hint2_tpl.replace('PART','1').replace('FIRST','0'), hint_tpl.replace('PART','1'), hint2_tpl.replace('PART','0').replace('FIRST','1')]
    def repl2(m):
        nonlocal cnt2
        h=hints[cnt2]; cnt2+=1
        return m.group(0)+h
    f=re.sub(r' +migrating_slot_range\.meta\.dst_chunk_part,\n +\)\);\n', repl2, f)
    need(cnt2==4, 'four stamping loop bodies')
    # hint after each inner stamping loop (before the plain `break;`)
    def repl(m):
        nonlocal cnt
        p=str(cnt); cnt+=1
        return m.group(1)+'''                proof {
                    let sq = old_cluster.chunks@[it.index@].migrating_slots[%s]@;
                    assert(sq.subrange(0, sq.len() as int) =~= sq);
                }
'''%p+m.group(2)
    f=re.sub(r'(                \}\n)(                break;\n)', repl, f)
    need(cnt==2, 'two plain breaks')
    f=f.replace("        let cluster = self\n","        proof { axiom_key_of_same::<ClusterName>(cluster_name); }\n        let ghost old_map = self.store.clusters@;\n        let cluster = self\n",1)
    # ghost snapshots
    f=f.replace("        let mut peer_position = HashSet::new();\n","        let mut peer_position = HashSet::new();\n        let ghost old_cluster = *cluster;\n        broadcast use axiom_iter_mut_has_resolved;\n",1)
    f=f.replace("        if let Some(verif_r) = verif_ret { return verif_r; }\n","        if let Some(verif_r) = verif_ret { return verif_r; }\n        let ghost mid = *cluster;\n",1)

    specs='''
// ---- specs ----
pub open spec fn is_hit(c: ChunkStore, failed: Seq<char>) -> bool { c.proxy_addresses[0]@ == failed || c.proxy_addresses[1]@ == failed }
pub open spec fn hit_half(c: ChunkStore, failed: Seq<char>) -> int { if c.proxy_addresses[0]@ == failed { 0 } else { 1 } }
pub open spec fn flipped(h: int) -> ChunkRolePosition { if h == 0 { ChunkRolePosition::SecondChunkMaster } else { ChunkRolePosition::FirstChunkMaster } }
pub open spec fn touches(m: MigrationMetaStore, p: Set<(usize, usize)>) -> bool { p.contains((m.src_chunk_index, m.src_chunk_part)) || p.contains((m.dst_chunk_index, m.dst_chunk_part)) }
pub open spec fn positions_of(a: Seq<MigrationSlotRangeStore>) -> Set<(usize, usize)>
    decreases a.len()
{
    if a.len() == 0 { Set::<(usize, usize)>::empty() }
    else { positions_of(a.drop_last()).insert((a.last().meta.src_chunk_index, a.last().meta.src_chunk_part)).insert((a.last().meta.dst_chunk_index, a.last().meta.dst_chunk_part)) }
}
// entry b is entry a with epoch := e if stamped, unchanged otherwise
pub open spec fn entry_post(a: MigrationSlotRangeStore, b: MigrationSlotRangeStore, stamped: bool, e: u64) -> bool {
    b.range_list == a.range_list && b.is_migrating == a.is_migrating
    && b.meta.src_chunk_index == a.meta.src_chunk_index && b.meta.src_chunk_part == a.meta.src_chunk_part
    && b.meta.dst_chunk_index == a.meta.dst_chunk_index && b.meta.dst_chunk_part == a.meta.dst_chunk_part
    && b.meta.epoch == (if stamped { e } else { a.meta.epoch })
}
pub open spec fn entries_post(a: Seq<MigrationSlotRangeStore>, b: Seq<MigrationSlotRangeStore>, p: Set<(usize, usize)>, all: bool, e: u64) -> bool {
    a.len() == b.len() && forall|i: int| 0 <= i < a.len() ==> entry_post(#[trigger] a[i], b[i], all || touches(a[i].meta, p), e)
}
pub open spec fn chunk_static_eq(a: ChunkStore, b: ChunkStore) -> bool {
    a.stable_slots == b.stable_slots && a.proxy_addresses == b.proxy_addresses && a.hosts == b.hosts && a.node_addresses == b.node_addresses
}
// first phase, on the hit chunk
pub open spec fn hit_post(a: ChunkStore, b: ChunkStore, failed: Seq<char>, e: u64, early: bool, peers: Set<(usize, usize)>) -> bool {
    let h = hit_half(a, failed);
    if a.role_position == flipped(h) { early && b == a && peers == Set::<(usize, usize)>::empty() }
    else {
        !early && chunk_static_eq(a, b) && b.role_position == flipped(h)
        && b.migrating_slots[1 - h]@ == a.migrating_slots[1 - h]@
        && entries_post(a.migrating_slots[h]@, b.migrating_slots[h]@, Set::<(usize, usize)>::empty(), true, e)
        && peers == positions_of(a.migrating_slots[h]@)
    }
}
// second phase
pub open spec fn chunk_post2(a: ChunkStore, b: ChunkStore, p: Set<(usize, usize)>, e: u64) -> bool {
    chunk_static_eq(a, b) && a.role_position == b.role_position
    && entries_post(a.migrating_slots[0]@, b.migrating_slots[0]@, p, false, e)
    && entries_post(a.migrating_slots[1]@, b.migrating_slots[1]@, p, false, e)
}

pub open spec fn is_first_hit(oc: ClusterStore, j: int, failed: Seq<char>) -> bool {
    0 <= j < oc.chunks@.len() && is_hit(oc.chunks@[j], failed) && forall|i: int| 0 <= i < j ==> !is_hit(#[trigger] oc.chunks@[i], failed)
}
pub open spec fn chunk_final(a: ChunkStore, b: ChunkStore, is_j: bool, h: int, p: Set<(usize, usize)>, e: u64) -> bool {
    chunk_static_eq(a, b) && b.role_position == (if is_j { flipped(h) } else { a.role_position })
    && entries_post(a.migrating_slots[0]@, b.migrating_slots[0]@, p, is_j && h == 0, e)
    && entries_post(a.migrating_slots[1]@, b.migrating_slots[1]@, p, is_j && h == 1, e)
}
pub open spec fn takeover_post(oc: ClusterStore, nc: ClusterStore, failed: Seq<char>, e: u64) -> bool {
    &&& nc.chunks@.len() == oc.chunks@.len() && nc.name == oc.name && nc.config == oc.config
    &&& forall|j: int| #![trigger oc.chunks@[j]] is_first_hit(oc, j, failed) && oc.chunks@[j].role_position == flipped(hit_half(oc.chunks@[j], failed)) ==> nc == oc
    &&& forall|j: int| #![trigger oc.chunks@[j]] is_first_hit(oc, j, failed) && oc.chunks@[j].role_position != flipped(hit_half(oc.chunks@[j], failed)) ==> {
            let h = hit_half(oc.chunks@[j], failed);
            nc.epoch == e && forall|c: int| 0 <= c < oc.chunks@.len() ==> chunk_final(#[trigger] oc.chunks@[c], nc.chunks@[c], c == j, h, positions_of(oc.chunks@[j].migrating_slots[h]@), e)
        }
    &&& (forall|i: int| 0 <= i < oc.chunks@.len() ==> !is_hit(#[trigger] oc.chunks@[i], failed)) ==>
            nc.epoch == e && forall|c: int| 0 <= c < oc.chunks@.len() ==> chunk_final(#[trigger] oc.chunks@[c], nc.chunks@[c], false, 0, Set::<(usize, usize)>::empty(), e)
}

impl MetaStore {
//@@BUMP@@
}
//@@SPECS_END@@
//@@CONTRACT_BEGIN@@
'''
    contract='''    fn takeover_master(
        &mut self,
        cluster_name: &ClusterName,
        failed_proxy_address: String,
    ) -> (r: Result<(), MetaStoreError>)
        requires old(self).store.global_epoch < u64::MAX,
            vstd::std_specs::hash::obeys_key_model::<(usize, usize)>(),
            vstd::std_specs::hash::obeys_key_model::<ClusterName>(),
        ensures
            final(self).store.global_epoch == old(self).store.global_epoch + 1,
            final(self).store.failed_proxies == old(self).store.failed_proxies, final(self).store.failures == old(self).store.failures,
            final(self).store.all_proxies == old(self).store.all_proxies, final(self).store.enable_ordered_proxy == old(self).store.enable_ordered_proxy,
            final(self).store.version == old(self).store.version,
            r is Err ==> final(self).store.clusters@ == old(self).store.clusters@ && !old(self).store.clusters@.contains_key(*cluster_name),
            r is Ok ==> old(self).store.clusters@.contains_key(*cluster_name)
                && final(self).store.clusters@ == old(self).store.clusters@.insert(*cluster_name, final(self).store.clusters@[*cluster_name])
                && takeover_post(old(self).store.clusters@[*cluster_name], final(self).store.clusters@[*cluster_name], failed_proxy_address@, final(self).store.global_epoch),
'''
    body = f[f.index(') -> Result<(), MetaStoreError> {') + len(') -> Result<(), MetaStoreError> '):]
    s = specs + contract + "//@@CONTRACT_END@@\n" + body + "\n}\n"
    def must(old, new, count=1):
        nonlocal s
        need(s.count(old) >= 1, old[:60])
        s = s.replace(old, new, count)
    # 1. early case spec
    must("==> nc == oc\n","==> nc.epoch == oc.epoch && nc.chunks@ =~= oc.chunks@\n")
    # 2. ghost hit index
    must("        let ghost old_cluster = *cluster;\n","        let ghost old_cluster = *cluster;\n        let ghost mut hit_idx: int = -1;\n")
    s=s.replace("{ verif_ret = Some(Ok(())); break; }","{ proof { hit_idx = it.index@; } verif_ret = Some(Ok(())); break; }")
    s=re.sub(r'(                \}\n)(                break;\n)', lambda m: m.group(1)+"                proof { hit_idx = it.index@; }\n"+m.group(2), s)
    must("            invariant_except_break\n                verif_ret is None,","            invariant_except_break\n                hit_idx == -1,\n                verif_ret is None,")
    must("            ensures\n                it.index@ == it.seq().len() ||","""            ensures
                    hit_idx == -1 ==> it.index@ == it.seq().len() && verif_ret is None,
                    hit_idx == -1 ==> forall|i: int| 0 <= i < it.seq().len() ==> !is_hit(#[trigger] old_cluster.chunks@[i], failed_proxy_address@),
                    hit_idx != -1 ==> hit_idx == it.index@ - 1 && 0 <= hit_idx < it.seq().len() && is_hit(old_cluster.chunks@[hit_idx], failed_proxy_address@),
                    it.index@ == it.seq().len() ||""")
    # 3. after loop 1
    must("        if let Some(verif_r) = verif_ret { return verif_r; }\n        let ghost mid = *cluster;\n","""        let ghost mid = *cluster;
            proof {
                let oc = old_cluster; let fa = failed_proxy_address@;
                assert(mid.chunks@.len() == oc.chunks@.len());
                assert(mid.epoch == oc.epoch && mid.name == oc.name && mid.config == oc.config);
                if hit_idx == -1 {
                    assert forall|c: int| 0 <= c < oc.chunks@.len() implies !is_hit(#[trigger] oc.chunks@[c], fa) && mid.chunks@[c] == oc.chunks@[c] by {}
                } else {
                    assert(is_first_hit(oc, hit_idx, fa));
                    assert(hit_post(oc.chunks@[hit_idx], mid.chunks@[hit_idx], fa, new_epoch, verif_ret is Some, peer_position@));
                    assert forall|c: int| 0 <= c < oc.chunks@.len() && c != hit_idx implies mid.chunks@[c] == #[trigger] oc.chunks@[c] by {}
                }
            }
            if let Some(verif_r) = verif_ret {
                proof {
                    assert(cluster.chunks@ =~= old_cluster.chunks@);
                    assert forall|j: int| is_first_hit(old_cluster, j, failed_proxy_address@) implies j == hit_idx by {}
                }
                return verif_r;
            }
    """)
    # 4. end
    must("        cluster.epoch = new_epoch;\n        Ok(())\n","""        cluster.epoch = new_epoch;
            proof {
                let oc = old_cluster; let nc = *cluster; let fa = failed_proxy_address@; let pp = peer_position@;
                assert(nc.chunks@.len() == oc.chunks@.len());
                assert forall|c: int| 0 <= c < oc.chunks@.len() implies chunk_post2(mid.chunks@[c], #[trigger] nc.chunks@[c], pp, new_epoch) by {}
                if hit_idx == -1 {
                    assert(pp == Set::<(usize, usize)>::empty());
                    assert forall|c: int| 0 <= c < oc.chunks@.len() implies chunk_final(#[trigger] oc.chunks@[c], nc.chunks@[c], false, 0, Set::<(usize, usize)>::empty(), new_epoch) by {
                        assert(mid.chunks@[c] == oc.chunks@[c]);
                        assert(chunk_post2(mid.chunks@[c], nc.chunks@[c], pp, new_epoch));
                    }
                } else {
                    let j = hit_idx; let h = hit_half(oc.chunks@[j], fa);
                    assert forall|jj: int| is_first_hit(oc, jj, fa) implies jj == j by {}
                    assert(oc.chunks@[j].role_position != flipped(h));
                    assert(pp == positions_of(oc.chunks@[j].migrating_slots[h]@));
                    assert forall|c: int| 0 <= c < oc.chunks@.len() implies chunk_final(#[trigger] oc.chunks@[c], nc.chunks@[c], c == j, h, pp, new_epoch) by {
                        assert(chunk_post2(mid.chunks@[c], nc.chunks@[c], pp, new_epoch));
                        if c != j { assert(mid.chunks@[c] == oc.chunks@[c]); }
                    }
                }
            }
            Ok(())
    """)

    must('''pub open spec fn hit_post(a: ChunkStore, b: ChunkStore, failed: Seq<char>, e: u64, early: bool, peers: Set<(usize, usize)>) -> bool {
    let h = hit_half(a, failed);
    if a.role_position == flipped(h) { early && b == a && peers == Set::<(usize, usize)>::empty() }
    else {
        !early && chunk_static_eq(a, b) && b.role_position == flipped(h)
        && b.migrating_slots[1 - h]@ == a.migrating_slots[1 - h]@
        && entries_post(a.migrating_slots[h]@, b.migrating_slots[h]@, Set::<(usize, usize)>::empty(), true, e)
        && peers == positions_of(a.migrating_slots[h]@)
    }
}''','''pub open spec fn both_moved(a: ChunkStore, h: int) -> bool { a.role_position == flipped(1 - h) }
pub open spec fn hit_peers(a: ChunkStore, h: int) -> Set<(usize, usize)> {
    if both_moved(a, h) { positions_of(a.migrating_slots[h]@ + a.migrating_slots[1 - h]@) } else { positions_of(a.migrating_slots[h]@) }
}
pub open spec fn hit_post(a: ChunkStore, b: ChunkStore, failed: Seq<char>, e: u64, early: bool, peers: Set<(usize, usize)>) -> bool {
    let h = hit_half(a, failed);
    if a.role_position == flipped(h) { early && b == a && peers == Set::<(usize, usize)>::empty() }
    else {
        !early && chunk_static_eq(a, b) && b.role_position == flipped(h)
        && entries_post(a.migrating_slots[1 - h]@, b.migrating_slots[1 - h]@, Set::<(usize, usize)>::empty(), both_moved(a, h), e)
        && entries_post(a.migrating_slots[h]@, b.migrating_slots[h]@, Set::<(usize, usize)>::empty(), true, e)
        && peers == hit_peers(a, h)
    }
}''')
    must('''    && entries_post(a.migrating_slots[0]@, b.migrating_slots[0]@, p, is_j && h == 0, e)
    && entries_post(a.migrating_slots[1]@, b.migrating_slots[1]@, p, is_j && h == 1, e)''','''    && entries_post(a.migrating_slots[0]@, b.migrating_slots[0]@, p, is_j && (h == 0 || both_moved(a, h)), e)
    && entries_post(a.migrating_slots[1]@, b.migrating_slots[1]@, p, is_j && (h == 1 || both_moved(a, h)), e)''')
    s=s.replace("positions_of(oc.chunks@[j].migrating_slots[h]@)","hit_peers(oc.chunks@[j], h)")

    # hints before each `if both_moved {`
    parts=s.split("                if both_moved {\n")
    need(len(parts)==3, 'two `if both_moved {` blocks')
    def pre(h):
        o=1-h
        return f'''                proof {{
                    let s1 = old_cluster.chunks@[it.index@].migrating_slots[{h}]@;
                    let s2 = old_cluster.chunks@[it.index@].migrating_slots[{o}]@;
                    assert(s1.subrange(0, s1.len() as int) =~= s1);
                    assert(s1 + s2.subrange(0, 0) =~= s1);
                }}
'''
    s=parts[0]+pre(0)+"                if both_moved {\n"+parts[1]+pre(1)+"                if both_moved {\n"+parts[2]
    # hints before the two plain breaks that follow the `if both_moved {...}` blocks
    def repl3(m):
        nonlocal cnt3
        h=cnt3; o=1-h; cnt3+=1
        return m.group(1)+f'''                proof {{
                    let s1 = old_cluster.chunks@[it.index@].migrating_slots[{h}]@;
                    let s2 = old_cluster.chunks@[it.index@].migrating_slots[{o}]@;
                    assert(s1.subrange(0, s1.len() as int) =~= s1);
                    assert(s1 + s2.subrange(0, s2.len() as int) =~= s1 + s2);
                }}
'''+m.group(2)
    s=re.sub(r'(                    \}\n                \}\n)(                proof \{\n                    let sq)', repl3, s)
    need(cnt3==2, 'two both_moved blocks followed by hints')
    U.log.rule('D10', fobj, '2 early `return Ok(());` inside the first for-loop -> verif_ret flag + break, returned after the loop')
    U.log.rule('overlay', fobj, '8 loop specs by ordinal, ghost snapshots old_cluster/mid/hit_idx, proof hints anchored on source text')
    bump = bump_global_epoch(U)
    specs_final = s[:s.index('//@@SPECS_END@@')].replace('//@@BUMP@@', bump.text)
    contract_final = s[s.index('//@@CONTRACT_BEGIN@@') + len('//@@CONTRACT_BEGIN@@\n'):s.index('//@@CONTRACT_END@@')]
    fobj.text = contract_final + s[s.index('//@@CONTRACT_END@@') + len('//@@CONTRACT_END@@\n'):]
    fobj.text = fobj.text[:fobj.text.rindex('}')]     # closing brace of the impl is added by the caller
    return {'specs': specs_final, 'contract': contract_final, 'fn': fobj, 'bump': bump}


def bump_global_epoch(U):
    S = U.src('src/broker/store.rs')
    b = S.fn('bump_global_epoch', within=r'impl MetaStore\b')
    b.header("""    pub fn bump_global_epoch(&mut self) -> (r: u64)
        requires old(self).global_epoch < u64::MAX
        ensures final(self).global_epoch == old(self).global_epoch + 1, r == final(self).global_epoch,
            final(self).clusters == old(self).clusters, final(self).all_proxies == old(self).all_proxies,
            final(self).failed_proxies == old(self).failed_proxies, final(self).failures == old(self).failures,
            final(self).enable_ordered_proxy == old(self).enable_ordered_proxy, final(self).version == old(self).version,""")
    return b


UPDATE_STRUCT = "pub struct MetaStoreUpdate<'a> { pub store: &'a mut MetaStore }\n"


def build(U):
    broker_common.head(U)
    U.add(broker_common.types(U))
    P = parts(U)
    U.add(P['specs'])
    U.add(UPDATE_STRUCT + "impl<'a> MetaStoreUpdate<'a> {\n")
    U.add_fn(P['fn'])
    U.add("}\n")
    U.prelude('c06_lemma.rs')
    U.prelude('epoch_spec.rs')
    U.add(FIRST_HIT_LEMMA)
    U.add(epoch_lemma('takeover_master', P['contract'], 'cluster_name: ClusterName, failed_proxy_address: String, r: Result<(), MetaStoreError>', hint=TAKEOVER_EPOCH_HINT))
    U.add("} // verus!\nfn main() {}\n")


FIRST_HIT_LEMMA = '''
pub proof fn lemma_first_hit(oc: ClusterStore, fa: Seq<char>, n: int) -> (j: int)
    requires 0 <= n <= oc.chunks@.len()
    ensures (j == -1 && forall|i: int| 0 <= i < n ==> !is_hit(#[trigger] oc.chunks@[i], fa)) || (0 <= j < n && is_first_hit(oc, j, fa))
    decreases n
{
    if n == 0 { -1 } else {
        let j = lemma_first_hit(oc, fa, n - 1);
        if j != -1 { j } else if is_hit(oc.chunks@[n - 1], fa) { n - 1 } else { -1 }
    }
}
'''
TAKEOVER_EPOCH_HINT = '''
    if r is Ok {
        let oc = o.clusters@[cluster_name]; let nc = n.clusters@[cluster_name]; let fa = failed_proxy_address@;
        let j = lemma_first_hit(oc, fa, oc.chunks@.len() as int);
        if j != -1 { let tr = oc.chunks@[j]; }
        assert(nc.epoch == n.global_epoch || (nc.epoch == oc.epoch && nc.chunks@ =~= oc.chunks@));
        assert forall|k: ClusterName| o.clusters@.contains_key(k) && n.clusters@.contains_key(k) implies
            (#[trigger] n.clusters@[k]).epoch >= o.clusters@[k].epoch
            && (!content_eq(o.clusters@[k], n.clusters@[k]) ==> n.clusters@[k].epoch == n.global_epoch && n.global_epoch > o.global_epoch) by {
            if k != cluster_name { assert(n.clusters@[k] == o.clusters@[k]); }
        }
        assert(n.clusters@.dom() =~= o.clusters@.dom());
    }
'''


def epoch_lemma(name, contract, params, extra_requires='', hint=''):
    """C04 link: the *proved* postcondition of a mutator implies the epoch contract.  The lemma's requires is the
    ensures clause of the contract, transcribed mechanically (old(self).store -> o, final(self).store -> n)."""
    ens = contract[contract.index('ensures') + len('ensures'):]
    ens = ens.replace('final(self).store', 'n').replace('old(self).store', 'o').replace('*cluster_name', 'cluster_name')
    return '''
pub proof fn lemma_%s_epoch_contract(o: MetaStore, n: MetaStore, %s)
    requires inv_epoch(o), o.global_epoch < u64::MAX - 1, %s
%s
    ensures epoch_contract(o, n)
{ %s }
''' % (name, params, extra_requires, ens.rstrip().rstrip(','), hint)

MUST_FAIL = '''
// the trusted T-iter axiom must not prove that an element modified before `break` is unchanged
fn must_fail_titer_sanity(v: &mut Vec<u64>)
    requires old(v)@.len() > 0
    ensures final(v)@.len() == old(v)@.len(), forall|i: int| 0 <= i < old(v)@.len() ==> final(v)@[i] == old(v)@[i]
{
    broadcast use axiom_iter_mut_has_resolved;
    for x in it: v.iter_mut()
        invariant it.seq().len() == old(v)@.len(), forall|i: int| 0 <= i < it.seq().len() ==> *(#[trigger] it.seq()[i]) == old(v)@[i],
    {
        *x = 7;
        break;
    }
}
proof fn must_fail_takeover_post_not_trivial(oc: ClusterStore, nc: ClusterStore, failed: Seq<char>, e: u64)
    requires oc.chunks@.len() > 0, nc.chunks@.len() == oc.chunks@.len(), nc.name == oc.name, nc.config == oc.config
    ensures takeover_post(oc, nc, failed, e)
{ }
'''
