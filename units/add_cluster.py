# C04: MetaStoreUpdate::add_cluster (src/broker/update.rs): a new cluster is stamped with the new global epoch, every
# refusal leaves the store untouched, no expect() can fail given the allocator contract (assumed: out of reach, C12)
import re
import vlib
import json, os
from units import broker_common, takeover, chunk_init

SPEC = '''
pub struct InvalidClusterName;
impl<'b> core::convert::TryFrom<&'b str> for ClusterName {
    type Error = InvalidClusterName;
    #[verifier::external_body] fn try_from(s: &'b str) -> Result<Self, InvalidClusterName> { unimplemented!() }
}
impl Clone for ClusterName { #[verifier::external_body] fn clone(&self) -> (r: Self) ensures r == *self { unimplemented!() } }
#[verifier::external_body] pub struct NonZeroUsize { x: usize }   // std::num::NonZeroUsize, opaque
pub uninterp spec fn nz_val(n: NonZeroUsize) -> usize;
impl NonZeroUsize { #[verifier::external_body] fn new(n: usize) -> (r: Option<NonZeroUsize>) ensures r is Some <==> n != 0, r matches Some(v) ==> nz_val(v) == n { unimplemented!() } }
// consecutive non-empty blocks starting at slot 0 and ending at slot 16383, one per master, no migration entry (the with_slots clause of proxy_resource_to_chunk_store)
pub open spec fn new_partition(cs: Seq<ChunkStore>) -> bool {
    (forall|c: int| 0 <= c < cs.len() ==> (#[trigger] cs[c]).migrating_slots[0]@.len() == 0 && cs[c].migrating_slots[1]@.len() == 0 && cs[c].role_position == ChunkRolePosition::Normal)
    && exists|avg: int, rem: int| 1 <= avg && 0 <= rem && start_of(0, avg, rem) == 0 && #[trigger] start_of(2 * (cs.len() as int), avg, rem) == 16384
        && forall|c: int, p: int| 0 <= c < cs.len() && 0 <= p < 2 ==> half_is((#[trigger] cs[c].stable_slots[p]), start_of(2 * c + p, avg, rem), start_of(2 * c + p + 1, avg, rem) - 1)
}
pub open spec fn resources_registered(s: MetaStore, arr: Seq<[ProxyResource; CHUNK_PARTS]>) -> bool {
    forall|c: int, k: int| 0 <= c < arr.len() && 0 <= k < 2 ==> s.all_proxies@.contains_key(#[trigger] arr[c][k].proxy_address)
}
pub open spec fn chunks_registered(dom: Set<String>, chunks: Seq<ChunkStore>) -> bool {
    forall|c: int, k: int| 0 <= c < chunks.len() && 0 <= k < 2 ==> dom.contains(#[trigger] chunks[c].proxy_addresses[k])
}
'''

def build(U):
    broker_common.head(U)
    T = broker_common.types(U).replace('use std::num::NonZeroUsize;', '')
    T = T.replace('pub struct RangeList(Vec<Range>);', 'pub struct RangeList(pub Vec<Range>);').replace('pub struct Range(usize, usize);', 'pub struct Range(pub usize, pub usize);')
    U.add(T)
    U.prelude('epoch_spec.rs')
    U.prelude('range_spec.rs')
    U.add(chunk_init.SPEC)
    U.add(SPEC)
    ov = json.load(open(os.path.join(vlib.VERIF, 'contracts', 'proxy_resource_to_chunk_store.overlay.json')))
    chunk_header = [op for op in ov['ops'] if op['op'] == 'header'][0]['text']
    U.add('impl MetaStore {\n')
    U.add_fn(takeover.bump_global_epoch(U))
    U.add("}\n" + takeover.UPDATE_STRUCT + "impl<'a> MetaStoreUpdate<'a> {\n")
    U.add('''    // allocator: out of reach (nested HashMap<String, ..> with max_by_key / min_by closures, see C12); assumed: pure (&self), returns
    // only registered proxies, and as many chunks as asked for (two proxies per chunk)
    #[verifier::external_body] fn generate_free_chunks(&self, expected_num: NonZeroUsize) -> (r: Result<Vec<[ProxyResource; CHUNK_PARTS]>, MetaStoreError>)
        ensures r matches Ok(v) ==> resources_registered(*old(self.store), v@) && v@.len() * 2 == nz_val(expected_num)
    { unimplemented!() }
    #[verifier::external_body] fn generate_free_chunks_for_ordered_proxy_index(&self, expected_num: NonZeroUsize, start_index: usize) -> (r: Result<Vec<[ProxyResource; CHUNK_PARTS]>, MetaStoreError>)
        ensures r matches Ok(v) ==> resources_registered(*old(self.store), v@) && v@.len() * 2 == nz_val(expected_num)
    { unimplemented!() }
    // proved in unit chunk_init on the real text; the contract text (precondition included) is the header of contracts/proxy_resource_to_chunk_store.overlay.json
    #[verifier::external_body]
    ''' + chunk_header.rstrip().rstrip(',') + '''
    { unimplemented!() }
''')
    X = U.src('src/broker/update.rs')
    f = X.fn('add_cluster')
    f.r1_logging().r2_closure_underscore()
    f.header('''    pub fn add_cluster(
        &mut self,
        cluster_name: String,
        node_num: usize,
        default_cluster_config: ClusterConfig,
    ) -> (r: Result<(), MetaStoreError>)
        requires inv_epoch(*old(self).store), old(self).store.global_epoch < u64::MAX,
            vstd::std_specs::hash::obeys_key_model::<ClusterName>(), vstd::std_specs::hash::obeys_key_model::<String>(),
        ensures epoch_contract(*old(self).store, *final(self).store),
            r is Err ==> store_same(*old(self).store, *final(self).store),
            r is Ok ==> exists|k: ClusterName| #![trigger final(self).store.clusters@[k]] !old(self).store.clusters@.contains_key(k) && final(self).store.clusters@.contains_key(k)
                && final(self).store.clusters@[k].epoch == final(self).store.global_epoch && final(self).store.clusters@[k].config == default_cluster_config
                // C01 base case at the mutator: the new cluster has node_num / 4 chunks without migration entries whose stable halves are an exact partition of the 16384 slots
                && final(self).store.clusters@[k].chunks@.len() == node_num / 4 && new_partition(final(self).store.clusters@[k].chunks@),''')
    f.before('let chunk_stores = Self::proxy_resource_to_chunk_store(proxy_resource_arr,',
            "        let ghost arr = proxy_resource_arr@;\n        proof { assert(arr.len() * 2 == node_num / 2); assert(1 <= arr.len() <= 8192); }")
    f.after('let chunk_stores = Self::proxy_resource_to_chunk_store(proxy_resource_arr,',
            "        proof { assert forall|c: int, k: int| 0 <= c < chunk_stores@.len() && 0 <= k < 2 implies self.store.all_proxies@.dom().contains(#[trigger] chunk_stores@[c].proxy_addresses[k]) by { assert(chunk_of(arr[c], chunk_stores@[c])); assert(self.store.all_proxies@.contains_key(arr[c][k].proxy_address)); } assert(chunks_registered(self.store.all_proxies@.dom(), chunk_stores@)); }")
    f.after('let epoch = self.store.bump_global_epoch()', "        let ghost s1 = *self.store;\n        let ghost cn = cluster_name;")
    INV = ("self.store.all_proxies@.dom() == s1.all_proxies@.dom(), self.store.clusters@ == s1.clusters@, self.store.global_epoch == s1.global_epoch,\n"
           "                    self.store.failed_proxies@ == s1.failed_proxies@, self.store.failures@ == s1.failures@, self.store.version == s1.version,\n"
           "                    chunks_registered(s1.all_proxies@.dom(), cluster_store.chunks@), vstd::std_specs::hash::obeys_key_model::<String>(),")
    f.loop_spec(0, "                invariant " + INV, itname='itc')
    f.loop_spec(1, "                    invariant " + INV + "\n                    0 <= itc.index@ < cluster_store.chunks@.len(), *chunk == cluster_store.chunks@[itc.index@ as int],", itname='itp')
    f.before('let proxy = self', "                proof { axiom_key_of_same::<String>(proxy_address); assert(*proxy_address == chunk.proxy_addresses[itp.index@ as int]); }")
    f.after('let epoch = self.store.bump_global_epoch()', "        proof { assert forall|c: int| 0 <= c < chunk_stores@.len() implies (#[trigger] chunk_stores@[c]).migrating_slots[0]@.len() == 0 && chunk_stores@[c].migrating_slots[1]@.len() == 0 && chunk_stores@[c].role_position == ChunkRolePosition::Normal by { assert(chunk_of(arr[c], chunk_stores@[c])); } assert(new_partition(chunk_stores@)); }\n        let ghost cs_new = chunk_stores@;")
    f.before('Ok(())', "        proof { assert(self.store.clusters@.contains_key(cn)); assert(!old(self).store.clusters@.contains_key(cn)); assert(self.store.clusters@[cn].epoch == self.store.global_epoch); assert(self.store.clusters@[cn].config == default_cluster_config); assert(self.store.clusters@[cn].chunks@ == cs_new); }", nth=None)
    U.add_fn(f)
    U.add("}\n} // verus!\nfn main() {}\n")
    U.trust('generate_free_chunks* (allocator, C12) by assumed contract: pure, returns only registered proxies and exactly the number of chunks asked for; proxy_resource_to_chunk_store through its contract proved in unit chunk_init (text, precondition included, imported)',
            'NonZeroUsize::new by shim (Some iff n != 0)')

MUST_FAIL = '''
proof fn must_fail_add_cluster_resources_any(s: MetaStore, arr: Seq<[ProxyResource; CHUNK_PARTS]>) requires arr.len() > 0 ensures resources_registered(s, arr) { }
'''
