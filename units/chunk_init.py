# C01 (base case "create" / "scale out adds empty chunks"): MetaStoreUpdate::proxy_resource_to_chunk_store (src/broker/update.rs).
# with_slots = true (cluster creation): the stable halves, in order, are consecutive non-empty ranges that start at slot 0 and end at
# slot 16383 - an exact partition of the 16384 slots, sizes differing by at most one; with_slots = false (scale out): no half owns
# anything.  Every chunk names the two proxies of its resource, has no migration entry and is in Normal role position.
import re
import vlib
from units import broker_common

SPEC = '''
pub const SLOT_NUM: usize = 16384;
impl Clone for ProxyResource { #[verifier::external_body] fn clone(&self) -> (r: Self) ensures r == *self { unimplemented!() } }
// first slot of master j when 16384 slots are dealt out: avg each, the first rem masters one more
pub open spec fn start_of(j: int, avg: int, rem: int) -> int { j * avg + (if j <= rem { j } else { rem }) }
pub open spec fn half_is(h: Option<SlotRange>, lo_s: int, hi_s: int) -> bool {
    h matches Some(sr) && sr.tag is None && wf(sr.range_list.0@) && forall|s: int| covers(sr.range_list.0@, s) <==> lo_s <= s <= hi_s
}
pub open spec fn chunk_of(res: [ProxyResource; CHUNK_PARTS], ch: ChunkStore) -> bool {
    ch.role_position == ChunkRolePosition::Normal && ch.migrating_slots[0]@.len() == 0 && ch.migrating_slots[1]@.len() == 0
    && ch.proxy_addresses[0] == res[0].proxy_address && ch.proxy_addresses[1] == res[1].proxy_address
    && ch.hosts[0] == res[0].host && ch.hosts[1] == res[1].host
    && ch.node_addresses[0] == res[0].node_addresses[0] && ch.node_addresses[1] == res[0].node_addresses[1]
    && ch.node_addresses[2] == res[1].node_addresses[0] && ch.node_addresses[3] == res[1].node_addresses[1]
}
pub proof fn lemma_start_step(j: int, avg: int, rem: int)
    requires 0 <= j, 0 <= rem, 1 <= avg
    ensures start_of(j + 1, avg, rem) == start_of(j, avg, rem) + avg + (if j < rem { 1int } else { 0int }), start_of(j + 1, avg, rem) > start_of(j, avg, rem)
{
    assert((j + 1) * avg == j * avg + avg) by (nonlinear_arith);
}
pub proof fn lemma_start_bound(a: int, b: int, avg: int, rem: int)
    requires 0 <= a <= b, 0 <= rem, 1 <= avg
    ensures start_of(a, avg, rem) <= start_of(b, avg, rem)
    decreases b - a
{
    if a < b { lemma_start_bound(a, b - 1, avg, rem); lemma_start_step(b - 1, avg, rem); }
}
'''

def build(U):
    from units import range_list
    broker_common.head(U)
    T = broker_common.types(U)
    T = T.replace('pub struct RangeList(Vec<Range>);', 'pub struct RangeList(pub Vec<Range>);').replace('pub struct Range(usize, usize);', 'pub struct Range(pub usize, pub usize);')
    U.add(T)
    U.prelude('range_spec.rs')
    U.add(SPEC)
    # RangeList::from_single_range through the contract proved in unit range_list
    U.add('impl RangeList {\n    // proved in unit range_list on the real text (same contract text)\n    #[verifier::external_body]\n    pub fn from_single_range(range: Range) -> (r: Self)\n'
          '        ensures wf(r.0@), forall|s: int| covers(r.0@, s) <==> lo(range) <= s <= hi(range)\n    { unimplemented!() }\n}\n')
    U.add("pub struct MetaStoreUpdate<'a> { pub store: &'a mut MetaStore }\nimpl<'a> MetaStoreUpdate<'a> {\n")
    X = U.src('src/broker/update.rs')
    f = X.fn('proxy_resource_to_chunk_store')
    vlib.d3_enumerate(f)
    # closure-lift with captured state: `let mut create_slots = |index| { BODY };` mutates the captured cursor curr_slot and reads average /
    # remainder -> fn verif_create_slots(index, &mut cursor, average, remainder) { BODY } with the cursor accesses rewritten to the parameter;
    # the two call sites pass `&mut curr_slot, average, remainder`
    m = re.search(r'let mut create_slots = \|index\| \{', f.text)
    if not m:
        f._lost('closure-lift: let mut create_slots = |index| {')
    mask = vlib.code_mask(f.text)
    bo = m.end() - 1
    bc = vlib.match_brace(f.text, mask, bo)
    body = f.text[bo:bc + 1]
    semi = f.text.index(';', bc)
    f.text = f.text[:m.start()] + f.text[semi + 1:]
    n = 0
    for a in ('a', 'b'):
        if f.text.count('create_slots(%s)' % a) != 1:
            f._lost('closure-lift: call create_slots(%s)' % a)
        f.text = f.text.replace('create_slots(%s)' % a, 'Self::verif_create_slots(%s, &mut curr_slot, average, remainder)' % a)
    if len(re.findall(r'\bcurr_slot\b', body)) != 3:
        f._lost('closure-lift: the closure touches curr_slot in an unexpected way')
    body = re.sub(r'\bcurr_slot\b', '*verif_curr_slot', body)
    L = vlib.Fn('verif_create_slots', f.file, f.line, '    fn verif_create_slots(index: usize, verif_curr_slot: &mut usize, average: usize, remainder: usize) -> SlotRange ' + body, U.log)
    U.log.rule('closure-lift', L, 'FnMut closure create_slots lifted: captured cursor passed as &mut parameter, average / remainder by value')
    L.header('''    fn verif_create_slots(index: usize, verif_curr_slot: &mut usize, average: usize, remainder: usize) -> (r: SlotRange)
        requires 1 <= average <= 16384, *old(verif_curr_slot) <= 16384
        ensures *final(verif_curr_slot) == *old(verif_curr_slot) + average + (if index < remainder { 1int } else { 0int }),
            half_is(Some(r), *old(verif_curr_slot) as int, *final(verif_curr_slot) - 1)''')
    U.add_fn(L)
    f.apply_overlay('proxy_resource_to_chunk_store')
    U.add_fn(f)
    U.add('}\n} // verus!\nfn main() {}\n')
    U.trust('precondition: at least one and at most 8192 chunk resources (callers pass NonZero(node_num / 2) proxies with node_num % 4 == 0)',
            'RangeList::from_single_range through its contract proved in unit range_list; derived Clone of ProxyResource structural; D3; closure-lift')

MUST_FAIL = '''
proof fn must_fail_chunk_init_start(avg: int, rem: int) requires 1 <= avg, 0 <= rem ensures start_of(3, avg, rem) == start_of(2, avg, rem) { }
'''
