use vstd::prelude::*;
verus! {
use vstd::std_specs::iter::IteratorSpec;
pub broadcast axiom fn axiom_iter_mut_has_resolved<'a, T>(it: core::slice::IterMut<'a, T>)
    ensures #[trigger] has_resolved(it) ==> forall|i: int| 0 <= i < it.remaining().len() ==> has_resolved(#[trigger] it.remaining()[i]);
pub struct E { pub epoch: u64, pub k: usize }
pub struct C { pub epoch: u64, pub chunks: Vec<E> }

// early return inside iter_mut loop; then second loop
fn f(c: &mut C, key: usize, e: u64) -> (r: bool)
    ensures
        final(c).chunks@.len() == old(c).chunks@.len(),
        forall|i: int| 0 <= i < old(c).chunks@.len() ==> (#[trigger] final(c).chunks@[i]).k == old(c).chunks@[i].k,
        r ==> final(c).epoch == e,
        !r ==> final(c).epoch == old(c).epoch,
        forall|i: int| 0 <= i < old(c).chunks@.len() ==> (#[trigger] final(c).chunks@[i]).epoch == e || final(c).chunks@[i].epoch == old(c).chunks@[i].epoch,
{
    broadcast use axiom_iter_mut_has_resolved;
    for x in it: c.chunks.iter_mut()
        invariant
            c.epoch == old(c).epoch,
            it.seq().len() == old(c).chunks@.len(),
            forall|i: int| 0 <= i < it.seq().len() ==> *(#[trigger] it.seq()[i]) == old(c).chunks@[i],
            forall|i: int| 0 <= i < it.index@ ==> (#[trigger] final(it.seq()[i])).k == old(c).chunks@[i].k
                && (final(it.seq()[i]).epoch == e || final(it.seq()[i]).epoch == old(c).chunks@[i].epoch),
    {
        if x.k == key {
            if x.epoch == e {
                return false;
            }
            x.epoch = e;
            break;
        }
    }
    c.epoch = e;
    true
}
} // verus!
fn main() {}
