// Kani harnesses for the RESP parser (C15 / C16): bounded stand-ins that supply counterexamples for the Verus obligations
#[cfg(kani)]
mod verif {
    use super::*;
    // strict RESP reference for the non-array kinds
    fn first_lf(b: &[u8]) -> Option<usize> { let mut i = 0; while i < b.len() { if b[i] == b'\n' { return Some(i); } i += 1; } None }
    fn dec(b: &[u8]) -> Option<i64> {
        if b.is_empty() { return None; }
        let (neg, d) = if b[0] == b'-' { (true, &b[1..]) } else if b[0] == b'+' { (false, &b[1..]) } else { (false, b) };
        if d.is_empty() { return None; }
        let mut v: i64 = 0; let mut i = 0;
        while i < d.len() { if d[i] < b'0' || d[i] > b'9' { return None; } v = v * 10 + (d[i] - b'0') as i64; i += 1; }
        Some(if neg { -v } else { v })
    }
    // Ok((kind, start, end, consumed)); Err(true) = incomplete; Err(false) = invalid
    fn ref_scalar(b: &[u8]) -> Result<(u8, isize, isize, usize), bool> {
        if b.is_empty() { return Err(true); }
        let lf = match first_lf(b) { Some(i) => i, None => return Err(true) };
        if lf < 2 || b[lf - 1] != b'\r' { return Err(false); }
        match b[0] {
            b'+' | b'-' | b':' => Ok((b[0], 1, (lf - 1) as isize, lf + 1)),
            b'$' => {
                let n = match dec(&b[1..lf - 1]) { Some(n) => n, None => return Err(false) };
                if n < -1 { return Err(false); }
                if n == -1 { return Ok((b'$', -1, -1, lf + 1)); }
                let n = n as usize;
                if b.len() < lf + 1 + n + 2 { return Err(true); }
                if b[lf + 1 + n] != b'\r' || b[lf + 2 + n] != b'\n' { return Err(false); }
                Ok((b'$', (lf + 1) as isize, (lf + 1 + n) as isize, lf + 1 + n + 2))
            }
            _ => Err(false),
        }
    }
    // the memchr crate uses SIMD / inline asm that Kani cannot translate: replaced by its documented meaning
    fn stub_memchr(needle: u8, haystack: &[u8]) -> Option<usize> { let mut i = 0; while i < haystack.len() { if haystack[i] == needle { return Some(i); } i += 1; } None }
    // DOMAIN: every byte string of <= 7 bytes whose first byte is one of $ + - : (bounded; arrays excluded)
    #[kani::proof]
    #[kani::unwind(9)]
    #[kani::stub(memchr::memchr, stub_memchr)]
    fn resp_scalar_le7() {
        let len: usize = kani::any();
        kani::assume(len <= 7);
        let bytes: [u8; 7] = kani::any();
        let buf = &bytes[..len];
        kani::assume(len == 0 || buf[0] == b'$' || buf[0] == b'+' || buf[0] == b'-' || buf[0] == b':');
        let want = ref_scalar(buf);
        kani::cover!(matches!(want, Ok((b'$', s, e, _)) if e > s));
        kani::cover!(matches!(want, Err(false)));
        match (want, parse_resp(buf)) {
            (Ok((k, s, e, c)), Ok((v, c2))) => {
                assert!(c == c2);
                match v {
                    RespIndex::Simple(d) => assert!(k == b'+' && d.0 as isize == s && d.1 as isize == e),
                    RespIndex::Error(d) => assert!(k == b'-' && d.0 as isize == s && d.1 as isize == e),
                    RespIndex::Integer(d) => assert!(k == b':' && d.0 as isize == s && d.1 as isize == e),
                    RespIndex::Bulk(BulkStrIndex::Str(d)) => assert!(k == b'$' && d.0 as isize == s && d.1 as isize == e),
                    RespIndex::Bulk(BulkStrIndex::Nil) => assert!(k == b'$' && s == -1),
                    RespIndex::Arr(_) => assert!(false),
                }
            }
            (Err(true), Err(ParseError::NotEnoughData)) => {}
            (Err(false), Err(ParseError::InvalidProtocol)) => {}
            _ => assert!(false),
        }
    }
}
